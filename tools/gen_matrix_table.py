#!/usr/bin/env python3
"""Regenerate the seeded-change table of DESIGN.md (between the MATRIX markers) from
selftest/matrix.json and seeded/*/meta.json (run from /verif)."""
import json, os, re
m = json.load(open("selftest/matrix.json"))
rows = []
def verdict(e):
    if not e.get("applies"):
        return "patch does not apply"
    out = []
    for p, c in e["checks"].items():
        if c["rc"] == 1:
            out.append(f"{p}: **caught** ({', '.join(c['clauses'][:4]) or 'VIOLATION'})")
        elif c["rc"] == 0:
            out.append(f"{p}: passes")
        else:
            out.append(f"{p}: machinery error rc={c['rc']}")
    return "; ".join(out)
for name in sorted(os.listdir("seeded")):
    meta = json.load(open(f"seeded/{name}/meta.json"))
    e = m.get(name)
    summ = re.sub(r"\s+", " ", meta.get("summary", ""))[:150].replace("|", "/")
    note = ""
    if meta.get("status_after_repairs"):
        note = "neutralised by a repair: " + meta["status_after_repairs"][:110].replace("|", "/")
    elif meta.get("detection_history"):
        note = meta["detection_history"][:170].replace("|", "/")
    rows.append(f"| {name} | {summ} | {verdict(e) if e else 'not run'} | {note} |")
rev = []
for name, e in sorted(m.items()):
    if name.startswith("revert-"):
        rev.append(f"| {name} | {verdict(e)} |")
table = ("| change | what it pretends to be / breaks | quick-tier result of the property's check (scratch worktree) | history |\n|---|---|---|---|\n"
         + "\n".join(rows) + "\n\nReverse patches of the `fix:` commits (`selftest/reverts/`):\n\n| reverse patch | result |\n|---|---|\n" + "\n".join(rev))
s = open("DESIGN.md").read()
if "MATRIX_TABLE_PLACEHOLDER" in s:
    s = s.replace("MATRIX_TABLE_PLACEHOLDER", "<!-- MATRIX:BEGIN -->\n<!-- MATRIX:END -->")
s = re.sub(r"<!-- MATRIX:BEGIN -->.*<!-- MATRIX:END -->", lambda _: "<!-- MATRIX:BEGIN -->\n" + table + "\n<!-- MATRIX:END -->", s, flags=re.S)
# benign (false-alarm) table
if os.path.exists("selftest/benign.json"):
    bj = json.load(open("selftest/benign.json"))
    brow = []
    for name in sorted(bj):
        e = bj[name]
        summ = ""
        sp = f"selftest/benign/{name}/summary.txt"
        if os.path.exists(sp):
            summ = re.sub(r"\s+", " ", open(sp).read())[:170].replace("|", "/")
        res = "; ".join(f"{p}: rc={c['rc']}" + (f" VIOLATION {','.join(c['clauses'])}" if c["violation_lines"] else "") + (f" ({c['spec_drift_lines']} drift lines)" if c["spec_drift_lines"] else "")
                        for p, c in sorted(e["checks"].items()))
        brow.append(f"| {name} | {', '.join(e['files'])} | {summ} | {e.get('suite', '')[:30]} | {res} |")
    btable = "| change | files | summary (agent's words, truncated) | suite | checks run (quick tier, scratch worktree) |\n|---|---|---|---|---|\n" + "\n".join(brow)
    if "BENIGN_TABLE_PLACEHOLDER" in s:
        s = s.replace("BENIGN_TABLE_PLACEHOLDER", "<!-- BENIGN:BEGIN -->\n<!-- BENIGN:END -->")
    s = re.sub(r"<!-- BENIGN:BEGIN -->.*<!-- BENIGN:END -->", lambda _: "<!-- BENIGN:BEGIN -->\n" + btable + "\n<!-- BENIGN:END -->", s, flags=re.S)
open("DESIGN.md", "w").write(s)
print(len(rows), "seeded,", len(rev), "reverts")
