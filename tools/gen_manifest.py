#!/usr/bin/env python3
"""Regenerate MANIFEST.json from the table below (run from /verif)."""
import json, sys
props = [json.loads(l) for l in open("properties.jsonl")]
RES_NOTE = ("Trusted: TLC 1.8 and the Json community module; the concretisation/projection maps in harness/drv_resolve.py; "
            "replayed citations are built with the model classes' constructors, extracted lists are abstracted by drv_resolve.abstract_extracted.")
CHECKS = {
 "C06": dict(engine="resolve", design="4 C06",
   technique="TLA+ model checking of Resolve.tla (TLC) + replay of every graph transition into resolve_citations + TLC trace validation (Trace_Resolve.tla)",
   text=("Resolve.tla (one action per loop iteration of resolve_citations, history-free state) is model-checked by TLC on three focused "
         "alphabets with complete state graphs (lists of any length with <= 3 distinct full citations); one citation list per graph transition "
         "is replayed into the real resolve_citations and the recorded mapping is judged by the C06 monitor clauses of Trace_Resolve.tla in TLC "
         "(disjoint, same objects, input order, head is full, every full once, share-iff-equal, unknown never) and compared step by step with the model. "
         "Bounded-exhaustive over the abstract alphabet; histories: the random walks are resolved AGAIN on the same objects after the caller cleared every plaintiff (judged against the edited symbols), extracted lists again after an edition became known; placeholder pages of one to three underscores; the same written citation with years deciding for different editions; in addition the lists EXTRACTED by get_citations from generated citation-dense documents and from every reporters-db example citation next to its neighbours are resolved and judged by the same TLC monitors (abstracted from the real objects)."), note=RES_NOTE),
 "C07": dict(engine="resolve", design="4 C07",
   technique="TLA+ model checking of Resolve.tla (NeverGuess, IdOnlyPredecessor) + transition replay + TLC trace validation",
   text=("Same machinery as C06; the action properties NeverGuess / IdOnlyPredecessor / LastIsOutcome are checked on the model, and the monitor "
         "clauses C07.neverguess (attachment => the reference model's candidate set, written from the property text, is exactly that resource) and "
         "C07.idpredecessor are evaluated by TLC on every real result, with both boundaries of the 150-page window, placeholder-page and page-less antecedents."), note=RES_NOTE),
 "C08": dict(engine="resolve", design="4 C08",
   technique="TLA+ model checking of Resolve.tla (PrefixStable, Grow) + prefix replay + TLC trace validation",
   text=("Same machinery as C06; for every replayed list the real resolve_citations is also run on every prefix and TLC checks that each prefix result "
         "equals the restriction of the whole result (members, group order, resource), and that no non-full citation sits under a resource introduced later."), note=RES_NOTE),
}
TOK_NOTE = ("Trusted: TLC 1.8 + Json module; one-off extractors that reproduce abstract candidates (harness/drv_tokenize.py); "
            "calls that raise are judged under C04.")
CHECKS["C12"] = dict(engine="tokenize", design="4 C12",
   technique="TLA+ model checking of Tokenize.tla (TLC) + replay of every terminal configuration into the real Tokenizer + TLC trace validation on toy and document token streams",
   text=("Tokenize.tla (one action per loop iteration of Tokenizer.tokenize: merge / pop-nominative / skip / emit, append_text) is model-checked "
         "for every space skeleton and every sequence of <= 3 candidate matches over 5 (thorough 6) positions: Partition, TextPieces, SelfIndex, Increasing, IndexExact. "
         "Every terminal configuration of the N=4 instance is replayed through a real Tokenizer with one-off extractors, and citation-dense generated documents "
         "are run through the three shipped tokenizers; TLC judges every recorded token stream with the C12 monitor clauses (concat = text, offsets index own text, "
         "increasing, index list exact) and checks it equals the model's Run() on the recorded candidates."), note=TOK_NOTE)
ANN_NOTE = ("Trusted: TLC 1.8 + Json module; token concretisation (digits for plain text, so the minimal diff is unique) in harness/drv_annotate.py; "
            "lxml as well-formedness judge (named by the property); the two diff engines are only assumed to return minimal scripts, which conformance checks.")
_ann = ("Annotate.tla (one action per iteration of the annotation loop: translate through SpanUpdater, clip, balance test, style-tag repair, wrap, emit) "
        "and SpanUpdater.tla are model-checked by TLC for every target text of <= 4 tokens (text, inserted whitespace, <i>, <p>, (<b>)), with and without a source, "
        "3 modes, every sorted list of <= 2 spans, and for every well-formed markup of <= 8 tokens; every terminal configuration of the emit instances is replayed "
        "through the real annotate_citations with both diff engines (incl. bold runs with self-closing elements and style runs with two annotations), plus every span and every pair of spans of short texts with blanks, sources that LACK parts of the plain text (token class d: deletions of the diff, also leading ones and the empty source; found defect F26, fixed 69c0903), <div> elements (the name of the balance test's own wrapper), equal span texts in different neighbourhoods (every plain character the same digit), a caller-supplied annotator= on every third call, long multi-line forced-alignment documents, the clean -> extract -> annotate pipeline on marked-up documents and arbitrary string pairs; "
        "TLC judges every recorded output with the monitor clauses and compares it with the model. ")
CHECKS["C09"] = dict(engine="annotate", design="4 C09", technique="TLA+ model checking of Annotate.tla (invariant Additive at every loop step) + configuration replay + TLC trace validation",
   text=_ann + "C09 clause: the output with the inserted strings removed equals the target text.", note=ANN_NOTE)
CHECKS["C10"] = dict(engine="annotate", design="4 C10", technique="TLA+ model checking of Annotate.tla/SpanUpdater.tla (ExactEnclosure, Monotone, InRange) + configuration replay + TLC trace validation",
   text=_ann + "C10 clauses: exact enclosure under forced alignment (premise stated on the inputs only; both diff engines judged), annotations in order, translation monotone and in range for arbitrary string pairs. Open known finding F21: difflib's non-minimal diff on documents with repeated lines misplaces annotations (reported as KNOWN-FINDING by mechanism signature).", note=ANN_NOTE)
CHECKS["C11"] = dict(engine="annotate", design="4 C11", technique="TLA+ model checking of Annotate.tla (WellFormedOut, WrapKeepsAll) + replay of all well-formed markups <= 8 tokens + TLC trace validation with lxml's verdict",
   text=_ann + "C11 clauses (premise: source well-formed, plain = its text content): output well-formed per lxml, text content unchanged, wrap keeps every annotation.", note=ANN_NOTE)
CHECKS["C20"] = dict(engine="clean", design="4 C20", technique="TLA+ model checking of Clean.tla (TLC) + bounded-exhaustive replay through the real cleaners + TLC trace validation",
   text=("Clean.tla transcribes the three regex cleaners over six character classes, clean_text as a fold with ValueError, and the html cleaner over properly nested "
         "token documents (div/p/i/script/style/head/link, blank and non-blank text, entities). TLC checks idempotence, no-run-left, other-characters-kept for every text of "
         "<= 6 (thorough 8) characters and the composition law for every split of every step list (also for the list applied again, immediately, to its own output); every emitted text (two concretisations) and document is run through "
         "the real cleaners and TLC judges the recorded outputs (incl. clean_text(t, s) vs step-by-step for all lists of <= 3 steps with repeats, unknown names, custom callables and non-callable step values, and "
         "html() = visible text nodes joined by spaces) and compares class images with the model."),
   note="Trusted: TLC + Json module; class representatives (harness/drv_clean.py); lxml's HTML parser defines what a text node is (documents avoid leading whitespace in text nodes, <title>, empty input).")
CHECKS["C13"] = dict(engine="ahofilter", design="4 C13", technique="regular-language inclusion decided by TLC on the product NFA x Aho-Corasick automaton (RegexIncl.tla) for every extractor + TLC-judged differential traces",
   text=("For each of the ~6,800 extractors built from the installed reporters-db the pattern is parsed with Python's own regex parser into an epsilon-free NFA whose atomic "
         "predicates are classified by `re` itself over all 0x110000 code points; TLC explores the product with the Aho-Corasick automaton of the extractor's filter strings "
         "(fold as in the tokenizer) and reports every accepting product state that has seen no literal -- a complete decision of L(pattern) in Sigma* literals Sigma*. "
         "Counterexample words are confirmed on the real regex and real get_extractors before they count. In addition one shortest accepted word per extractor, every filter string of every case-insensitive extractor in every case-variant spelling "
         "(each character replaced by each of its variants, incl. the non-ASCII ones re.IGNORECASE accepts: U+0130, U+0131, U+017F, U+212A), a caller's own extractors with mixed-case filter strings next to the shipped special ones, generated "
         "documents and random sub-lists are run through AhocorasickTokenizer and the reference Tokenizer and TLC judges matching-subset-selected and stream equality."),
   note="Trusted for passing verdicts: the regex->NFA translation and the AC table construction in harness/regex2nfa.py (validated by witness words in both directions); anchors treated as epsilon.")
CHECKS["C15"] = dict(engine="purity", design="4 C15", technique="TLA+ model checking of Purity.tla (threads x calls x hash-seed permutation; TLC emits the step-level schedules) + replay of every call-level history in fresh processes under different PYTHONHASHSEED + deterministic two-thread schedules (sys.settrace scheduler) + TLC trace validation",
   text=("Purity.tla models a process (hash seed = iteration order of a set of extractors), the shared default tokenizer (only mutable shared state: the compiled-pattern cache) "
         "and two threads whose calls are four pre-emptible steps; TLC checks that every completed call returns F(text) -- the winning extractors and the SEQUENCE of the merged token's candidate editions -- for every interleaving and call list (and shows that the original behaviours SetOrder / EdSetOrder and the regression SharedSel violate it). Every call-level history TLC enumerates is replayed with real threads in fresh interpreters under 8 (thorough 32) hash seeds, "
         "texts bound to a corpus containing every text found with unmerged equal-span candidates, over six option sets (plain, remove_ambiguous, cleaning steps, markup mode, a step list without html, tokenizer=HyperscanTokenizer with one instance per thread), every third history with other tokenizers (filtered / reversed / partial extractor lists over the shared extractor objects) built and used between its calls; a deterministic scheduler (harness/sched.py: threads parked at the call events of eyecite frames, one pre-emption at every k-th yield point and at the first entry of every function, also as the first calls of a fresh process) forces the interleavings inside a call; TLC judges each recorded call against the fresh single-threaded baseline."),
   note="Trusted: TLC + Json; interleavings inside a call are enumerated at function-call granularity with one pre-emption (bytecode-level races inside one function are only met by the free-running 1 us switch-interval runs); candidate editions compared in their tuple order; digest comparison (sha1/64 bit) of serialised results.")
CHECKS["C03"] = dict(engine="filter", design="4 C03", technique="TLA+ model checking of Filter.tla (exact transcription of filter_citations) + list replay + TLC trace validation of get_citations results and merge histories",
   text=("Filter.tla transcribes filter_citations (de-dup by span, stable sort by full span, sweep, final sort by span). TLC checks Sorted, Disjoint, NonRefsKept, Idempotent for every "
         "citation list extraction can produce within bounds (<= 3 non-reference citations with disjoint spans and arbitrary enclosing full spans, <= 2 reference citations inserted "
         "before their full citation or appended). Every emitted list is rebuilt from real citation objects and filtered once and twice; get_citations runs on citation-dense generated "
         "documents with both merge histories; every deep layout (3 non-reference + 2 reference citations) of the exhaustive unit-span instance MC_Filter_unit and `tlc -simulate` walks of a deeper instance (lists of up to 7 citations; thorough: 6x more) are replayed too; documents include named fragments x reference forms so that the merge histories contain reference citations, a slice extracted with remove_ambiguous=True and 400 marked-up documents extracted in markup mode (line-wrapped multi-word names, six step lists); TLC judges order / uniqueness / non-overlap / non-references kept / idempotence and checks model = code on every one."),
   note="Trusted: TLC + Json; the list generation constraints state what extraction can produce (they were derived from the code and are what TLC counterexamples are concretised against).")
CHECKS["C18"] = dict(engine="editions", design="4 C18", technique="TLA+ model checking of Editions.tla (get_year / includes_year / guess_edition) + extraction over every ambiguous reporter string x boundary years x year positions + TLC trace validation",
   text=("Editions.tla transcribes get_year, Edition.includes_year, guess_edition and the ambiguity filter; TLC checks YearSound and GuessSound for every candidate configuration "
         "(<= 2 exact and <= 2 variation editions, every open/closed date range) and every year on both sides of every boundary, on both year paths. Every ambiguous reporter string of the "
         "installed reporters-db (thorough: every string) x boundary years x six year positions, and texts with a year both before a parallel group and after it (each in / out of range), are extracted with and without remove_ambiguous; TLC judges year range / year text / guess "
         "membership / single candidate / needs-year / only-candidate-publishing / disambiguation = filter of the default run, and recomputes every guess with the model."),
   note="Trusted: TLC + Json; candidate editions and their date ranges are read from the citation's own Edition objects; 'own year' = not a parallel citation (same full-span start as the preceding full case citation).")
CHECKS["C16"] = dict(engine="equality", design="4 C16", technique="TLA+ model checking of Equality.tla (hash / == / Resource over a toy database, all pairs) + database-exhaustive comparison groups + TLC trace validation",
   text=("Equality.tla transcribes the class-specific hashes, == as hash equality, Resource hashing and reporter normalisation through guess_edition; TLC checks all pairs of abstract "
         "citations over a toy database containing every ambiguity pattern: CaseIff (equal iff same class, volume, page, corrected reporter, page not placeholder), SelfOnly, CrossKind, "
         "HashResource, MetaFree. For every reporter string that reporters-db (read directly) maps to exactly one edition a comparison group is extracted: canonical and variant spelling in "
         "different contexts (pin, year in / out of the edition's range, and -- for an edition name that is also a variation of other editions -- the first / last year of each of those, parties, parenthetical, court), other page, other volume, a sibling edition, short forms, two placeholder pages; "
         "plus groups around every reporter string that names several editions (an edition name shared by two reporters; a variation of differently named editions -- identities read off the extracted objects), compared again after resolve_citations used the objects (history), some members extracted through the Hyperscan tokenizer, nominative / id / unknown / law / journal groups and pools of all database examples. TLC judges ==, hash, Resource against the written identity, the equivalence laws and the "
         "corrected_citation round trip."),
   note="Trusted: TLC + Json; members not extracted exactly as written (custom templates) are skipped and counted; example pools take the written identity from the extracted groups.")
EXT_NOTE = ("Trusted: TLC + Json; 'every string' is reached through the hostile closure of the fragment grammar (bounded depth); "
            "witness offsets are searched by the harness but verified by TLC; calls that raise are judged under C04.")
_ext = ("Extract.tla models the offset arithmetic of the extractors (extract_pin_cite, add_post_citation with parenthetical trimming, the backward party-name scan of add_defendant, "
        "add_pre_citation, short-form antecedents, match_on_tokens windows) over abstract token lists with NONDETERMINISTIC regex results; TLC checks SpanLaws for every word list of <= 4 (5) tokens, "
        "every citation position and form and every matcher result the window admits (and finds the two original arithmetic defects when the fix flags are off). "
        "Citation-dense generated documents (all fragment pairs x separators, seeded longer and hostile documents, character mutations), in plain and markup mode, through the three tokenizers, "
        "are judged by TLC monitors on the returned citations; and Extract.tla is BOUND to the code step by step: the guarded hook logs every match_on_tokens window and result, Trace_ExtractSteps.tla recomputes every span of every returned citation (short / supra / id / full / law / journal) and every window length with Extract.tla's operators from the logged matcher results and the public token list and must equal what the library returned (selftest/binding_demo.py shows corrupted recordings are rejected). Meta.tla specifies the VALUES of the metadata (process_parenthetical as the loop the code runs, the strip helpers, get_year, the order post-citation / defendant scan / pre-citation / parallel inheritance): MC_Meta checks its laws for every text of <= 6 (8) characters and every chain of <= 4 (6) citations and every model input is replayed through the real helper functions; Trace_Meta.tla takes one model step per citation of a document (state: the citation appended just before), binds the matcher results from the hook events and recomputes every metadata value from the document at the places the events name (differences are SPEC-DRIFT). Configurations: a slice of the documents with remove_ambiguous=True, documents around every reporter string with separable candidate editions (an undated citation of it next to a dated citation of something else), and the C19 markup generator's documents under six step lists. The generated documents are followed by a real-text corpus: every citation-like string literal of the repository's own tests and the paragraphs of tests/assets/opinion.txt. Monitors: ")
CHECKS["C02"] = dict(engine="extract", design="4 C02", technique="TLA+ model checking of Extract.tla (offset arithmetic with nondeterministic matchers) + step-level trace validation of hook-recorded matcher events against Extract.tla (Trace_ExtractSteps.tla) + TLC-judged monitors on citations returned for generated documents",
   text=_ext + "0 <= full start <= start <= end <= full end <= len; the slice at the span starts with the whole matched text; the pin-cite span contains the span and the pin-cite text.", note=EXT_NOTE)
CHECKS["C17"] = dict(engine="extract", design="4 C17", technique="TLC-judged witness monitor (every textual metadata value occurs inside the citation's own or joint extent) on generated documents + Extract.tla / Meta.tla model checking and step-level trace validation of hook-recorded matcher events (Trace_ExtractSteps.tla: offsets; Trace_Meta.tla: values, one model step per citation)",
   text=_ext + "every textual metadata value (pin cite, year, parties, antecedent, extra, publisher, month, day, supra volume, full-citation parenthetical) is a slice of the text inside the citation's full span "
              "or the joint extent of the citations that start at the same place.", note=EXT_NOTE)
CHECKS["C04"] = dict(engine="eyecite", design="4 C04", technique="TLC trace validation of recorded whole sessions against Eyecite.tla (no action for a raised call) + NoRaise invariants of the component models",
   text=("Eyecite.tla composes the public calls into the session a user runs (get_citations with a tokenizer / remove_ambiguous, merge of reference citations, resolve_citations, annotate_citations in three modes) "
         "and has no action for a call that raises; the component models carry err = none invariants (Resolve, SpanUpdater, Annotate). Sessions are recorded on hostile documents (every ordered pair of "
         "hostile fragments, citation x hostile fragment pairs, seeded hostile documents, character mutations) for Aho-Corasick and Hyperscan (reference tokenizer on a subsample) x plain / remove_ambiguous, "
         "resolution, and annotation with the returned spans in the three modes, every call logged at its return on the error path too; plus markup sessions (clean_text -> get_citations in markup mode -> two-step merge with filter_citations -> resolution of a prefix -> annotation against the marked-up source; trace actions bind CallCleanWith / CallMergeWith); TLC accepts a session iff every event is consumed. Hostile fragments include placeholder pages in every page position and digit runs longer than int() converts (5,000 digits; defect F23, fixed)."),
   note="Trusted: TLC + Json; 'every Python string' is reached through the hostile closure of the fragment grammar, bounded in depth; non-raise rejections are reported as SPEC-DRIFT (C02/C03/C06 are judged by their own checks).")
CHECKS["C14"] = dict(engine="hyperscan", design="4 C14", technique="TLA+ model checking of HsOffsets.tla (byte/character offsets) and HsCache.tla (cache life cycle with crashes and corruptions) + replay on real cache directories + TLC-judged candidate comparison",
   text=("HsOffsets.tla models byte-level matching with start-of-match, the widening of hits to whole characters, the byte->character offset table and the re-match; TLC checks for every text of <= 5 characters "
         "(core / alphanumeric / punctuation / 2- and 3-byte characters) that no reference candidate is lost and every candidate is genuine. HsCache.tla models construction as separate steps (exists, load, scratch, "
         "compile, non-atomic write) with crashes between write begin and end, eight corruption classes and a file written by a tokenizer with another configuration in the same directory (Foreign: other flags, or the same patterns in another order); TLC checks it never raises and only takes a database from an intact file; every behaviour is replayed on a real "
         "cache directory and hyperscan.loadb's reaction to each fault class is compared with the model's environment assumption. Generated legal text with multi-byte characters before / after / between / inside "
         "citations is run through both tokenizers -- also over custom extractor lists (a reversed sample; synthetic patterns with multi-byte literals and optional characters), and a second time on the same tokenizer instance after get_citations used its tokens -- and TLC judges subset, genuineness of extra candidates and agreement of get_citations."),
   note="Trusted: TLC + Json; the domain guard of C14 (no non-ASCII whitespace / digits / case variants) holds by construction of the texts; 'genuine' witnesses are computed by re-matching on the full text; cache replay uses a 45-extractor list.")
CHECKS["C19"] = dict(engine="markup", design="4 C19", technique="TLA+ model checking of Markup.tla (reference offsets through the markup->plain translator) + TLC-judged comparison of markup mode with plain mode on generated markup",
   text=("Markup.tla models the cleaned text, the markup->plain SpanUpdater script (one '-' per tag) and the reference finder's offset arithmetic (bisect_left for starts, bisect_right for ends); TLC checks for every markup "
         "of <= 6 tokens that the computed reference span is exactly where the name stands in the cleaned text, inside the text and inside its full span. Generated marked-up legal text (italic / emphasis around party "
         "names with and without trailing punctuation, paragraphs, entities, whitespace, ordinary-word party names emphasised later in lower case, whole multi-word names wrapped across lines, parallel citations) x six step lists containing html (first, last, in the middle) is extracted in "
         "markup mode and in plain mode on the cleaned text; TLC judges: non-reference citations identical, reference offsets valid, each reference after a full case citation one of whose valid names occurs in its text."),
   note="Trusted: TLC + Json; the name-validity rule is transcribed in the harness; the witness (which full citation / name / offset) is searched by the harness and verified by TLC.")
CHECKS["C05"] = dict(engine="scenario", design="4 C05", technique="TLA+ model checking of Scenario.tla on top of Resolve.tla + every scenario rendered into one running text through get_citations and resolve_citations + TLC trace validation",
   text=("Scenario.tla builds documents sentence by sentence over 2-3 distinct cases with distinct or colliding (reporter, volume) (F.2d / F.3d with the same volume; the same reporter and volume; every 12th scenario also with Met. / Wash., each the name of two editions), each reference "
         "labelled with the case it was written to refer to, whether it is unambiguous in the property's sense and whether it must be left out; TLC checks on the Resolve.tla model that every unambiguous reference "
         "joins its intended case, impossible-pin ids and ids after an unresolved citation join nothing, one resource per case. Every scenario (quick: 30,000 per configuration) is rendered into ONE running text, "
         "extracted and resolved by the real code, and TLC judges the recorded grouping with the same clauses."),
   note="Trusted: TLC + Json; rendering of sentences (harness/drv_extract.py); a sentence not extracted as exactly one citation of the written kind makes the document 'not judged' (counted; extraction is C01).")
CHECKS["C01"] = dict(engine="forms", design="4 C01", technique="TLA+ grammar specification Forms.tla (TLC enumerates every document shape with its slot-level ground truth) + database-exhaustive concretisation + TLC-judged exact comparison",
   text=("Forms.tla specifies the documented citation language as slot sequences (lead, parties, pre-citation year, core, pin cite, parallel cite, year / court / bracket parenthetical, parenthetical, terminator, trailing text -- also one in which the defendant's name comes back as a later reference) "
         "for the six forms, the domain rules of the property, and Expected(shape): which slots the span covers, where every component is written, where the full span starts and ends. TLC enumerates all ~9,200 valid shapes "
         "and checks the ground truth is internally consistent. Every shape is concretised (reporter strings, courts from courts-db, names, numbers) and every plain-template reporter string of reporters-db (~2,900 edition names "
         "and variations) is run through the minimal 'vol R page' and 'vol R at page' forms; TLC compares the projected result of get_citations with the concrete expectation: count, kind, exact span, groups, pin cite, year, court, "
         "defendant, plaintiff suffix, antecedent, parenthetical, full-span start and end (adjacent whitespace tolerance), written reporter among the candidate editions unless a second pattern matches the same characters. Every shape document is extracted again with remove_ambiguous=True (same expectation: the pool's reporter strings each name one edition) and one in twelve through the Hyperscan tokenizer (never the first Hyperscan tokenizer of its process). Also concretised: every court of courts-db whose citation string the year-parenthetical grammar admits, every journal and law reporter string and every law example citation of reporters-db, punctuated and multi-word party names, a lead longer than the matcher window. Open known finding F22: an antecedent guess is cut at an apostrophe / inner capital (KNOWN-FINDING by mechanism signature)."),
   note="Trusted: TLC + Json; concretisation in harness/forms.py; editions with custom templates, variations ending in ',' or ' at' are excluded (counted); for short / supra / id. forms the full-span end is judged as 'reaches the span end, at most the closing parenthesis'.")
NA_REASON = "check not built yet (work in progress; see DESIGN.md section 10 build order)"
checks = []
for p in props:
    c = CHECKS.get(p["id"])
    if not c: continue
    checks.append({"property_id": p["id"],
      "quick_cmd": f"./check {p['id']} --tier quick", "thorough_cmd": f"./check {p['id']} --tier thorough",
      "evidence_file": f"/verif/evidence/{p['id']}.json",
      "replay_cmd_template": f"./check {p['id']} --replay {{path}}",
      "engine": c["engine"],
      "level_claimed": {"category": "model_checking", "text": c["text"], "design_ref": c["design"]},
      "level_note": c["note"], "technique": c["technique"]})
m = {"version": 1,
 "setup_cmd": "./setup.sh",
 "hooks": {"guard": "EYECITE_VERIF", "enable": "EYECITE_VERIF=1 in the environment of the /venv/bin/python processes that import eyecite from /repo (python: nothing to build; each check starts fresh interpreters on /repo's working tree). The guard is OFF for every driver process except the step-level conformance driver of C02/C17 (harness/chk_extract.py passes EYECITE_VERIF=1 to drv_extract.run_steps). With the guard on, eyecite/_verif.py buffers one event per helpers.match_on_tokens call (window, match span, group spans); only the step-level conformance layer of C02/C17 (Trace_ExtractSteps.tla) reads them, every other check observes the public API only",
           "baseline_off_cmd": "cd /repo && /venv/bin/python -m pytest -ra -q -p no:cacheprovider --timeout=900 --continue-on-collection-errors",
           "source_commits": ["1dbaf419783e7d32b0b3dd56df357ba6ce7e4931", "224c6d48a12559d46741fa2c5248ecc0ad128192"], "add_only": True},
 "engines": [{"name": "resolve", "path": "spec/Resolve.tla spec/MC_Resolve.tla spec/Trace_Resolve.tla spec/ResolveGeneric.tla spec/MC_ResolveGeneric.tla spec/Trace_ResolveGeneric.tla spec/Hits.tla harness/chk_resolve.py harness/drv_resolve.py",
              "serves_properties": ["C06", "C07", "C08"], "kind_free_text": "TLA+ spec, TLC model checking, transition replay, TLC trace validation"},
             {"name": "tokenize", "path": "spec/Tokenize.tla spec/MC_Tokenize.tla spec/Trace_Tokenize.tla harness/chk_tokenize.py harness/drv_tokenize.py harness/gendocs.py",
              "serves_properties": ["C12"], "kind_free_text": "TLA+ spec, TLC model checking, configuration replay, TLC trace validation"},
             {"name": "clean", "path": "spec/Clean.tla spec/MC_Clean.tla spec/Trace_Clean.tla harness/chk_clean.py harness/drv_clean.py",
              "serves_properties": ["C20"], "kind_free_text": "TLA+ spec, TLC model checking, exhaustive replay, TLC trace validation"},
             {"name": "ahofilter", "path": "spec/RegexIncl.tla spec/Trace_AhoFilter.tla harness/regex2nfa.py harness/chk_aho.py harness/drv_aho.py",
              "serves_properties": ["C13"], "kind_free_text": "regex->NFA translation, TLC product reachability, TLC-judged differential traces"},
             {"name": "purity", "path": "spec/Purity.tla spec/MC_Purity.tla spec/Trace_Purity.tla harness/chk_purity.py harness/drv_purity.py harness/sched.py",
              "serves_properties": ["C15"], "kind_free_text": "TLA+ spec, TLC model checking, history replay across processes / hash seeds / threads, TLC trace validation"},
             {"name": "filter", "path": "spec/Filter.tla spec/MC_Filter.tla spec/Trace_Filter.tla harness/chk_filter.py harness/drv_extract.py harness/gendocs.py",
              "serves_properties": ["C03"], "kind_free_text": "TLA+ spec, TLC model checking, list replay, TLC trace validation"},
             {"name": "editions", "path": "spec/Editions.tla spec/MC_Editions.tla spec/Trace_Editions.tla harness/chk_editions.py harness/drv_extract.py",
              "serves_properties": ["C18"], "kind_free_text": "TLA+ spec, TLC model checking, database-exhaustive extraction, TLC trace validation"},
             {"name": "equality", "path": "spec/Equality.tla spec/MC_Equality.tla spec/Trace_Equality.tla harness/chk_equality.py harness/drv_extract.py",
              "serves_properties": ["C16"], "kind_free_text": "TLA+ spec, TLC model checking, database-exhaustive comparison groups, TLC trace validation"},
             {"name": "extract", "path": "spec/Extract.tla spec/MC_Extract.tla spec/Trace_Extract.tla spec/Trace_ExtractSteps.tla harness/chk_extract.py harness/drv_extract.py harness/gendocs.py",
              "serves_properties": ["C02", "C17"], "kind_free_text": "TLA+ spec of the offset arithmetic, TLC model checking, TLC-judged monitors on real extraction results"},
             {"name": "eyecite", "path": "spec/Eyecite.tla spec/Trace_Eyecite.tla harness/chk_pipeline.py harness/drv_extract.py harness/gendocs.py",
              "serves_properties": ["C04"], "kind_free_text": "session composition spec, TLC model checking, TLC trace validation of recorded sessions"},
             {"name": "hyperscan", "path": "spec/HsOffsets.tla spec/HsCache.tla spec/MC_HsOffsets.tla spec/MC_HsCache.tla spec/Trace_Hs.tla harness/chk_hs.py harness/drv_hs.py",
              "serves_properties": ["C14"], "kind_free_text": "TLA+ specs, TLC model checking, fault replay on real cache files, TLC-judged differential candidates"},
             {"name": "markup", "path": "spec/Markup.tla spec/MC_Markup.tla spec/Trace_Markup.tla harness/chk_markup.py harness/drv_extract.py",
              "serves_properties": ["C19"], "kind_free_text": "TLA+ spec, TLC model checking, TLC-judged markup-vs-plain comparison"},
             {"name": "scenario", "path": "spec/Scenario.tla spec/MC_Scenario.tla spec/Trace_Scenario.tla spec/Resolve.tla harness/chk_scenario.py harness/drv_extract.py",
              "serves_properties": ["C05"], "kind_free_text": "TLA+ scenario spec over the resolution model, TLC model checking, running-text replay, TLC trace validation"},
             {"name": "forms", "path": "spec/Forms.tla spec/MC_Forms.tla spec/Trace_Forms.tla harness/chk_forms.py harness/forms.py harness/drv_extract.py",
              "serves_properties": ["C01"], "kind_free_text": "TLA+ grammar + ground-truth spec, TLC shape enumeration, database-exhaustive concretisation, TLC-judged comparison"},
             {"name": "annotate", "path": "spec/Annotate.tla spec/SpanUpdater.tla spec/MC_Annotate.tla spec/MC_SpanUpdater.tla spec/Trace_Annotate.tla spec/Trace_SpanUpdater.tla harness/chk_annotate.py harness/drv_annotate.py",
              "serves_properties": ["C09", "C10", "C11"], "kind_free_text": "TLA+ spec, TLC model checking, configuration replay, TLC trace validation"}],
 "checks": checks,
 "notes": "See DESIGN.md. Exit codes: 0 held, 1 VIOLATION, 2 machinery failure. Every trace specification also reports, per monitor clause, how many recorded traces exercised its premise (spec/Hits.tla; evidence coverage.clause_exercised / clauses_never_exercised): accounting, never a verdict.",
 "not_applicable": [{"property_id": p["id"], "reason": NA_REASON} for p in props if p["id"] not in CHECKS]}
json.dump(m, open("MANIFEST.json", "w"), indent=1)
print("claimed:", [c["property_id"] for c in checks])
