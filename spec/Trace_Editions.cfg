SPECIFICATION TSpec
CONSTANTS
  NoId = ""
  Today = 2026
  MinYear = 1600
INVARIANT Judge
INVARIANT Conform
INVARIANT Done
CHECK_DEADLOCK FALSE
