SPECIFICATION Spec
CONSTANTS
  ClampIndex = TRUE
  EmptySpanClamp = TRUE
  SkipReclip = TRUE
  EmptySourceFix = TRUE
  Tol = 10
  MaxToks = 5
  MaxAnns = 2
  WfOnly = FALSE
  Modes <- AllModes
  TokSet <- ToksDel
INVARIANT NoRaise
INVARIANT Additive
INVARIANT InOrder
INVARIANT EmitDone
CHECK_DEADLOCK FALSE
