------------------------------ MODULE Equality ------------------------------
(***************************************************************************)
(* Citation equality and hashing: CitationBase.__eq__/__hash__,             *)
(* ResourceCitation.__hash__, CaseCitation.__hash__, Id/Unknown identity,   *)
(* Resource.__hash__, corrected_reporter through guess_edition.             *)
(* An abstract citation:                                                    *)
(*   obj   object identity                                                  *)
(*   cls   "FullCase" "ShortCase" "FullLaw" "FullJournal" "Id" "Unknown"    *)
(*   vol, pg (NoPage = placeholder), w (reporter string as written)         *)
(*   yr    year, meta  everything that must not matter (pin, parties, ...)  *)
(* DB maps a written string to its exact / variation candidate editions.    *)
(***************************************************************************)
EXTENDS Editions

CONSTANT DB         \* [string -> [exact: SUBSET editions, var: SUBSET editions]]
NoPage == -1

Corrected(c) == LET g == Guess(DB[c.w].exact, DB[c.w].var, c.yr)
                IN  IF g # NoGuess THEN g.name ELSE c.w          \* edition short name or as written
AllEds(c) == DB[c.w].exact \cup DB[c.w].var

Hash(c) ==
    CASE c.cls \in {"Id", "Unknown"} -> <<"obj", c.obj>>
      [] c.cls \in {"FullCase", "ShortCase"} ->
            IF c.pg = NoPage THEN <<"obj", c.obj>>
            ELSE <<"case", c.cls, c.vol, c.pg, Corrected(c)>>
      [] OTHER -> <<"groups", c.cls, c.vol, c.pg, c.w, AllEds(c)>>
Eq(c, d) == Hash(c) = Hash(d)
ResourceHash(c) == <<"Resource", Hash(c)>>

(* ---- C16 as predicates of a pair ---- *)
IsCase(c) == c.cls \in {"FullCase", "ShortCase"}
SelfOnly(c) == c.cls \in {"Id", "Unknown"} \/ (IsCase(c) /\ c.pg = NoPage)
CaseIff(c, d) == (IsCase(c) /\ IsCase(d)) =>
    (Eq(c, d) <=> (c.obj = d.obj \/ (/\ c.cls = d.cls /\ c.vol = d.vol /\ c.pg = d.pg /\ c.pg # NoPage
                                     /\ Corrected(c) = Corrected(d))))
SelfOnlyLaw(c, d) == SelfOnly(c) => (Eq(c, d) <=> c.obj = d.obj)
CrossKind(c, d)   == c.cls # d.cls => ~Eq(c, d)
HashResource(c, d) == (Eq(c, d) <=> ResourceHash(c) = ResourceHash(d))
=============================================================================
