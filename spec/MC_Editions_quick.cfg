SPECIFICATION Spec
CONSTANTS
  NoId = 0
  Today = 5
  MinYear = 2
  Years = {1, 2, 4, 5, 6}
  UncheckedPreYear = FALSE
INVARIANT YearSound
INVARIANT GuessSound
CHECK_DEADLOCK FALSE
