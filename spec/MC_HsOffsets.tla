---------------------------- MODULE MC_HsOffsets ----------------------------
EXTENDS HsOffsets, Json
CONSTANT MaxLen
VARIABLE t
Chars == {[cls |-> "c", w |-> 1], [cls |-> "a", w |-> 1], [cls |-> "p", w |-> 1],
          [cls |-> "m", w |-> 2], [cls |-> "m", w |-> 3]}
Init == t = <<>>
Next == Len(t) < MaxLen /\ \E ch \in Chars : t' = Append(t, ch)
Spec == Init /\ [][Next]_t
NoneLost   == RefCands(t) \subseteq HsCands(t)
AllGenuine == HsCands(t) \subseteq Genuine(t)
Emit == PrintT(<<"X", ToJson([t |-> t, ref |-> RefCands(t), hs |-> HsCands(t)])>>)
=============================================================================
