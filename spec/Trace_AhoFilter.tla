--------------------------- MODULE Trace_AhoFilter ---------------------------
(* C13 (iii): differential traces.  For a text and an extractor list L:
   matching  = indices of the extractors whose compiled pattern matches the text
   selected  = indices returned by AhocorasickTokenizer(extractors=L).get_extractors(text)
   ref / aho = the two token streams (every word rendered as a string; special tokens
               with type, offsets, groups, editions) and their index lists *)
EXTENDS Integers, Sequences, FiniteSets, Json, IOUtils, TLC, Hits
Traces == JsonDeserialize(IOEnv.TRACE_FILE)
NT == Len(Traces)
VARIABLES tid, bucket
NB == 64
T(t) == Traces[t]
SetOf(s) == {s[k] : k \in DOMAIN s}
ClauseSeq == <<"C04.noraise", "C13.superset", "C13.stream">>
Clauses == {ClauseSeq[ci] : ci \in DOMAIN ClauseSeq}
ASSUME PrintT(<<"CLAUSES", ToJson(ClauseSeq)>>)
Holds(cl, t) ==
  LET tr == T(t) IN
  IF tr.raised # "" THEN cl # "C04.noraise"
  ELSE CASE cl = "C13.superset" -> SetOf(tr.matching) \subseteq SetOf(tr.selected)
         [] cl = "C13.stream"   -> tr.aho = tr.ref /\ tr.ahoix = tr.refix
         [] OTHER -> TRUE
TInit == tid = 0 /\ bucket \in 0..(NB - 1)
TNext == tid = 0 /\ (\E t \in {x \in 1..NT : x % NB = bucket} : tid' = t) /\ UNCHANGED bucket
TSpec == TInit /\ [][TNext]_<<tid, bucket>>
Exercised(cl, t) ==
  LET tr == T(t) IN
  IF cl = "C04.noraise" THEN TRUE
  ELSE IF tr.raised # "" THEN FALSE
  ELSE CASE cl = "C13.superset" -> tr.matching # <<>>
    [] cl = "C13.stream" -> tr.refix # <<>>
    [] OTHER -> FALSE
Judge == tid # 0 => (/\ \A cl \in Clauses : Holds(cl, tid) \/ PrintT(<<"FAIL", tid, cl>>)
   /\ PrintT(<<"HIT", tid, Mask([ci \in DOMAIN ClauseSeq |-> Exercised(ClauseSeq[ci], tid)])>>))
Done == tid # 0 => PrintT(<<"DONE", tid>>)
=============================================================================
