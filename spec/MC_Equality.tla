----------------------------- MODULE MC_Equality -----------------------------
(* all pairs of abstract citations over a toy database with every ambiguity pattern:
   "A"  canonical name of edition e1            "a"  variation of e1 only
   "B"  canonical name of e2 (after e1 in time) "ab" variation of e1 and e2 (ambiguous without a year)
   "Ab" canonical name of e1' (another reporter's edition with the same short name "A") *)
EXTENDS Equality
VARIABLES c, d, picked
E(n, nm, s, e) == [id |-> n, name |-> nm, start |-> s, end |-> e]
e1 == E(1, "A", 1, 2)   e2 == E(2, "B", 3, NoBound)   e3 == E(3, "A", 4, 5)
ToyDB == [w \in {"A", "a", "B", "ab", "Ax"} |->
            CASE w = "A"  -> [exact |-> {e1}, var |-> {}]
              [] w = "a"  -> [exact |-> {}, var |-> {e1}]
              [] w = "B"  -> [exact |-> {e2}, var |-> {e1}]       \* exact wins over variation
              [] w = "ab" -> [exact |-> {}, var |-> {e1, e2}]
              [] OTHER    -> [exact |-> {e1, e3}, var |-> {}]]    \* same short name, two reporters
Cites == {[obj |-> o, cls |-> k, vol |-> v, pg |-> p, w |-> w, yr |-> y, meta |-> m] :
             o \in {1, 2}, k \in {"FullCase", "ShortCase", "FullJournal", "Id", "Unknown"},
             v \in {1, 2}, p \in {7, 8, NoPage}, w \in DOMAIN ToyDB, y \in {NoYear, 1, 3, 5}, m \in {1, 2}}
Init == c \in Cites /\ d = c /\ picked = FALSE
Next == /\ ~picked /\ picked' = TRUE /\ UNCHANGED c
        /\ d' \in {x \in Cites : x.obj # c.obj \/ x = c}
Spec == Init /\ [][Next]_<<c, d, picked>>
Laws == CaseIff(c, d) /\ SelfOnlyLaw(c, d) /\ CrossKind(c, d) /\ HashResource(c, d)
Symmetric == Eq(c, d) = Eq(d, c)
Reflexive == Eq(c, c)
(* context independence: for citations whose candidate set is a single edition (the reporter string
   is mapped unambiguously), year and the other metadata do not change the hash *)
Unambiguous(x) == Cardinality(IF DB[x.w].exact # {} THEN DB[x.w].exact ELSE DB[x.w].var) = 1
MetaFree == (Unambiguous(c) /\ c.cls = d.cls /\ c.vol = d.vol /\ c.pg = d.pg /\ c.w = d.w
             /\ ~SelfOnly(c)) => Eq(c, d)
=============================================================================
