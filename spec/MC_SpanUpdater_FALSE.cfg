SPECIFICATION Spec
CONSTANTS
  ClampIndex = FALSE
  MaxOps = 5
  MaxN = 2
INVARIANT NoRaise
INVARIANT InRange
INVARIANT Monotone
INVARIANT StartBeforeEnd
CHECK_DEADLOCK FALSE
