SPECIFICATION Spec
CONSTANTS
  ClampIndex = TRUE
  MaxToks = 6
INVARIANT RefExact
CHECK_DEADLOCK FALSE
