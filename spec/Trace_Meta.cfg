SPECIFICATION TSpec
CONSTANTS
  HighestYear <- TraceHighest
  BackSeek = 28
INVARIANT Done
CHECK_DEADLOCK FALSE
