------------------------------- MODULE Forms -------------------------------
(***************************************************************************)
(* C01: the documented citation language and what the extractor must return *)
(* for it.  A document of the grammar is a sequence of SLOTS; a SHAPE says  *)
(* how each slot is filled (by a lexeme class; the harness supplies the     *)
(* strings: reporter strings from reporters-db, courts from courts-db,      *)
(* numbers, synthetic party names).  Expected(shape) is the ground truth in *)
(* terms of slots: which slots the span covers, which slot each component   *)
(* is written in, where the full span starts and ends -- exactly as the     *)
(* property words it.  TLC enumerates every valid shape and checks that the *)
(* ground truth is internally consistent (Consistent).                      *)
(*                                                                          *)
(* Slots (in document order):                                               *)
(*   lead parties preyear core pin parallel yp paren term trail             *)
(* Forms: "full" (full case), "short", "supra", "id", "law", "journal".     *)
(* Domain rules learned from the documented grammar (DESIGN C01):           *)
(*  - a pin cite is directly followed by a terminator (punctuation,         *)
(*    parenthetical or end of text); id. forms are followed by whitespace   *)
(*  - a parenthetical follows a year parenthetical (full case)              *)
(*  - a short form has a written antecedent or starts the text              *)
(*  - a pin-less supra is followed by whitespace or a parenthetical         *)
(***************************************************************************)
EXTENDS Integers, Sequences, FiniteSets, TLC

Slots == <<"lead", "parties", "preyear", "core", "pin", "parallel", "yp", "paren", "term", "trail">>
SlotIx(s) == CHOOSE k \in DOMAIN Slots : Slots[k] = s

Leads    == {"none", "prose", "see", "in", "long"}   \* "long": more than MAX_MATCH_CHARS of uninterrupted plain prose
Parties  == {"none", "pv", "pvmulti", "inre", "ante", "antepin"}
Pins     == {"none", "p", "range", "at", "two", "label"}
YPs      == {"none", "year", "court", "bracket"}
Parens   == {"none", "simple", "nested", "double"}
Terms    == {"dot", "semi", "comma", "end", "space"}
Trails   == {"none", "sentence", "parens", "nameref"}   \* "nameref": the defendant's name comes back later ("... in Bar at 12 ...":
                                                         \* a reference citation, which is not one of the written citations judged here)
FormsSet == {"full", "short", "supra", "id", "law", "journal"}

Shape == [form : FormsSet, lead : Leads, parties : Parties, preyear : BOOLEAN, pin : Pins,
          parallel : BOOLEAN, yp : YPs, paren : Parens, term : Terms, trail : Trails]

Valid(s) ==
  /\ (s.term = "end") = (s.trail = "none")
  /\ (s.trail = "nameref" => (s.form = "full" /\ s.parties = "pv"))
  /\ (s.term = "space" => (s.paren # "none" \/ s.yp # "none" \/ (s.form \in {"supra", "id"} /\ s.pin = "none")))
  /\ CASE s.form = "full" ->
            /\ s.parties \in {"none", "pv", "pvmulti", "inre", "ante", "antepin"}
            /\ (s.preyear => (s.parties \in {"pv", "pvmulti"} /\ s.yp = "none"))
            /\ (s.paren # "none" => s.yp \in {"year", "court"})
            /\ (s.parties = "antepin" => s.pin = "none")
            /\ (s.parallel => (s.yp \in {"year", "court"} /\ s.parties \in {"pv", "pvmulti"} /\ s.pin \in {"none", "p"}))
            /\ (s.lead = "in" => s.parties \in {"none", "ante", "antepin"})
            /\ (s.parties \in {"ante", "antepin"} => s.lead \in {"none", "in", "long"})
            /\ (s.lead = "long" => s.parties \in {"ante", "antepin"})
            /\ (s.parties = "inre" => s.lead \in {"none", "see"})
       [] s.form = "short" ->
            /\ s.parties \in {"none", "ante"} /\ ~s.preyear /\ ~s.parallel /\ s.yp = "none"
            /\ s.pin \in {"p", "range"}                       \* the page after "at" and an optional range
            /\ s.paren \in {"none", "simple"}
            /\ (s.parties = "none" => s.lead \in {"none", "see"})
            /\ (s.parties = "ante" => s.lead \in {"none", "in", "long"})
       [] s.form = "supra" ->
            /\ s.parties = "ante" /\ ~s.preyear /\ ~s.parallel /\ s.yp = "none"
            /\ s.pin \in {"none", "at", "p"} /\ s.paren \in {"none", "simple"}
            /\ s.lead \in {"none", "in", "long"}
            /\ (s.pin = "none" => s.term = "space")
       [] s.form = "id" ->
            /\ s.parties = "none" /\ ~s.preyear /\ ~s.parallel /\ s.yp = "none"
            /\ s.pin \in {"none", "at", "range"} /\ s.paren \in {"none", "simple"}
            /\ s.lead \in {"none", "prose"} /\ s.term = "space"
       [] OTHER ->      \* law, journal
            /\ s.parties = "none" /\ ~s.preyear /\ ~s.parallel /\ s.lead \in {"none", "prose", "see"}
            /\ s.pin \in (IF s.form = "journal" THEN {"none", "p", "range"} ELSE {"none"})
            /\ s.yp \in {"none", "year"} /\ s.paren \in {"none", "simple"}
            /\ (s.paren # "none" => s.yp = "year")

(* which slots are present in the document *)
Present(s, slot) ==
  CASE slot = "lead" -> s.lead # "none"
    [] slot = "parties" -> s.parties # "none"
    [] slot = "preyear" -> s.preyear
    [] slot = "core" -> TRUE
    [] slot = "pin" -> s.pin # "none"
    [] slot = "parallel" -> s.parallel
    [] slot = "yp" -> s.yp # "none"
    [] slot = "paren" -> s.paren # "none"
    [] slot = "term" -> s.term # "end"
    [] OTHER -> s.trail # "none"

None == "-"
(* the ground truth, in terms of slots; None = not written / not specified by the property *)
Expected(s) ==
  [ kind     |-> s.form,
    ncites   |-> IF s.parallel THEN 2 ELSE 1,
    \* the span: the core, extended over the pin cite for short, supra and id. forms
    spanFrom |-> "core",
    spanTo   |-> IF s.form \in {"short", "supra", "id"} /\ s.pin # "none" THEN "pin" ELSE "core",
    pin      |-> IF s.parties = "antepin" THEN "parties" ELSE IF s.pin # "none" THEN "pin" ELSE None,
    year     |-> IF s.preyear THEN "preyear" ELSE IF s.yp # "none" THEN "yp" ELSE None,
    court    |-> IF s.yp = "court" THEN "yp" ELSE None,
    defendant|-> IF s.parties \in {"pv", "pvmulti", "inre"} THEN "parties" ELSE None,
    plaintiff|-> IF s.parties \in {"pv", "pvmulti"} THEN "parties" ELSE None,
    antecedent |-> IF s.parties \in {"ante", "antepin"} THEN "parties" ELSE None,
    paren    |-> IF s.paren # "none" THEN "paren" ELSE None,
    \* full span: starts at the extracted plaintiff or antecedent (unspecified otherwise) ...
    fullFrom |-> IF s.parties \in {"pv", "pvmulti", "ante", "antepin"} THEN "parties" ELSE None,
    \* ... and reaches the closing parenthesis (of the first parenthetical / the year parenthetical);
    \* without any parenthesis, the end of the pin cite or of the core
    fullTo   |-> IF s.paren # "none" THEN "paren" ELSE IF s.yp # "none" THEN "yp"
                 ELSE IF s.pin # "none" /\ ~s.parallel THEN "pin" ELSE IF s.parallel THEN None ELSE "core",
    \* for short / supra / id. forms the library does not count a parenthetical into the full span:
    \* there the full span must reach the end of the span and may reach the closing parenthesis
    fullToIsUpperBound |-> s.form \in {"short", "supra", "id"} ]

(* internal consistency of the ground truth *)
Consistent(s) ==
  LET e == Expected(s) IN
  /\ SlotIx(e.spanFrom) <= SlotIx(e.spanTo)
  /\ Present(s, e.spanFrom) /\ Present(s, e.spanTo)
  /\ \A f \in {e.pin, e.year, e.court, e.defendant, e.plaintiff, e.antecedent, e.paren, e.fullFrom, e.fullTo} :
        f # None => Present(s, f)
  /\ (e.fullFrom # None => SlotIx(e.fullFrom) <= SlotIx(e.spanFrom))
  /\ (e.fullTo # None => SlotIx(e.fullTo) >= SlotIx(e.spanTo))
  \* every component is written inside the expected full extent
  /\ \A f \in {e.pin, e.year, e.court, e.paren} :
        (f # None /\ e.fullTo # None /\ ~e.fullToIsUpperBound /\ f # "parties" /\ f # "preyear") => SlotIx(f) <= SlotIx(e.fullTo)
=============================================================================
