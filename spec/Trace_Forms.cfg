SPECIFICATION TSpec
INVARIANT Judge
INVARIANT Done
CHECK_DEADLOCK FALSE
