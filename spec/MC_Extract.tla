----------------------------- MODULE MC_Extract -----------------------------
(* every word list of <= MaxWords tokens, every position of the citation token, every form,
   every matcher result its windows admit *)
EXTENDS Extract
CONSTANTS MaxWords
VARIABLES words, cite, phase
vars == <<words, cite, phase>>
Kinds == {"w", "cite", "stopv", "stop", "para", "oth"}
NoCite == [ts |-> 0, te |-> 0, s |-> 0, e |-> 0, fs |-> 0, fe |-> 0, ps |-> 0, pe |-> 0]
Init == words = <<>> /\ cite = NoCite /\ phase = "build"
AddWord == /\ phase = "build" /\ Len(words) < MaxWords
           /\ \E k \in Kinds, n \in 1..2, sm \in BOOLEAN :
                (sm => k \notin {"stop", "stopv"}) /\ words' = Append(words, [k |-> k, n |-> n, semi |-> sm])
           /\ UNCHANGED <<cite, phase>>
None == -99
Pick(a, b) == IF a = None \/ a = -1 THEN b ELSE a   \* Python: override if not None else token offset (-1: PinSpanEnd's None)

(* short / supra / id citation at idx *)
ExtractShortLike ==
  /\ phase = "build"
  /\ \E idx \in DOMAIN words, form \in {"short", "supra", "id"} :
       /\ words[idx].k = (IF form = "short" THEN "cite" ELSE "oth")
       /\ LET ts == Start(words, idx)  te == ts + words[idx].n
              back == BackLen(words, idx - 1, 0)
          IN \E matched \in BOOLEAN, pre \in 0..words[idx].n, ante \in 0..back :
             \* pre: the page digits inside the token (any length up to the token's); the window holds the prefix
             \* and the following strings, truncated to MAX_MATCH_CHARS -- possibly in the middle of the prefix
             \* (cut only when a token is appended: a bare prefix is never cut)
             LET fl == FwdLen(words, idx + 1, TRUE, 0)
                 win == IF fl = 0 THEN pre ELSE Min(pre + fl, MaxMatch) IN
             \E pin \in 0..win :
               /\ (form = "short") = (pre > 0)
               /\ (pin > 0 => (matched /\ pin >= Min(pre, win)))   \* a pin cite starts at the window start and covers the visible prefix
               \* POST_SHORT_CITATION_REGEX is all-optional, so it always matches (possibly empty)
               /\ matched
               /\ LET se == PinSpanEnd(te, pre, matched, pin)
                  IN cite' = [ts |-> ts, te |-> te, s |-> ts, e |-> Pick(se, te),
                              fs |-> IF form = "id" THEN ts ELSE ts - ante,
                              fe |-> IF form = "short" THEN Max(Pick(se, 0), te) ELSE Pick(se, te),
                              ps |-> ts, pe |-> Max(te, Pick(se, te))]
  /\ phase' = "done" /\ UNCHANGED words

(* full case citation at idx *)
ExtractFull ==
  /\ phase = "build"
  /\ \E idx \in DOMAIN words :
       /\ words[idx].k = "cite"
       /\ LET ts == Start(words, idx)  te == ts + words[idx].n
              win == FwdLen(words, idx + 1, FALSE, 0)
              back == BackLen(words, idx - 1, 0)
          IN \E matched \in BOOLEAN, mend \in 0..win, pin \in 0..win, raw \in 0..win, proc \in 0..win,
                lead \in 0..1, trail \in 0..1, prem \in 0..back, prepin \in BOOLEAN :
               /\ pin <= mend /\ proc <= raw /\ pin + raw + (IF raw > 0 THEN 1 ELSE 0) <= mend
               /\ (~matched => (mend = 0 /\ pin = 0 /\ raw = 0))
               /\ LET fe0 == IF matched THEN te + mend - (raw - proc) ELSE -1
                      pe0 == IF matched /\ pin > 0 THEN te + pin ELSE -1
                      off == Scan(words, idx, idx - 1, 0, lead, trail)
                      fsD == IF off = -1 THEN None ELSE ts - off
                      fsP == IF off = -1 /\ prem > 0 THEN ts - prem ELSE None
                      fs0 == IF fsD # None THEN fsD ELSE fsP
                      ps0 == IF off = -1 /\ prem > 0 /\ prepin THEN ts - prem ELSE -1
                  IN cite' = [ts |-> ts, te |-> te, s |-> ts, e |-> te,
                              fs |-> IF fs0 = None THEN ts ELSE fs0, fe |-> Pick(fe0, te),
                              ps |-> IF ps0 = -1 THEN ts ELSE Min(ps0, ts),
                              pe |-> IF pe0 = -1 THEN te ELSE Max(pe0, te)]
  /\ phase' = "done" /\ UNCHANGED words
Next == AddWord \/ ExtractShortLike \/ ExtractFull
Spec == Init /\ [][Next]_vars
Laws == phase = "done" => SpanLaws(cite, TextLen(words))
=============================================================================
