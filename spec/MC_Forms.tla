------------------------------ MODULE MC_Forms ------------------------------
EXTENDS Forms, Json
VARIABLE s
Init == s \in {x \in Shape : Valid(x)}
Next == UNCHANGED s
Spec == Init /\ [][Next]_s
GroundTruthConsistent == Consistent(s)
Emit == PrintT(<<"F", ToJson([shape |-> s, exp |-> Expected(s)])>>)
=============================================================================
