SPECIFICATION Spec
CONSTANTS
  FinalSortBySpan = TRUE
  DedupePrefersNonRef = TRUE
  SweepCovers = TRUE
  P = 5
  MaxNon = 3
  Focus = TRUE
  MaxRef = 2
INVARIANT Sorted
INVARIANT Disjoint
INVARIANT NonRefsKept
INVARIANT Idempotent
INVARIANT Emit
CHECK_DEADLOCK FALSE
