---------------------------- MODULE MC_Tokenize ----------------------------
(* Model-checking instance of Tokenize.tla: the input (space skeleton and
   candidate sequence) is built by actions, then the loop runs. *)
EXTENDS Tokenize, Json

CONSTANTS MaxCands,     \* number of candidate matches
          SpaceSets     \* the space skeletons explored

QuickSpaces == {{}, {1}, {1, 2}, {0, 3}, {2, 4}}
QuickSpaces4 == {{}, {1}, {1, 2}, {0, 3}}
AllSpaces == SUBSET (0..(N-1))
Kinds == {"nom", "cite", "oth"}
Universe == {[s |-> a, e |-> b, kind |-> k, v |-> v] :
                a \in 0..(N-1), b \in 1..N, k \in Kinds, v \in 1..2} 
Cand == {c \in Universe : c.s < c.e}

Init == /\ sp \in SpaceSets /\ cands = <<>> /\ pc = "build"
        /\ order = <<>> /\ i = 0 /\ offset = 0 /\ last = NoTok /\ words = <<>> /\ ctoks = <<>>

(* candidates are appended in span order; candidates with the same span in any
   order (that is the tie order of the stable sort, i.e. the extractor order) *)
AddCand == /\ pc = "build" /\ Len(cands) < MaxCands
           /\ \E c \in Cand :
                /\ \A k \in DOMAIN cands : cands[k] # c
                \* modelling assumption: candidates that merge (same span, class, groups)
                \* agree on being nominative (after a merge the code reads the first of the
                \* de-duplicated editions, which the abstraction does not track)
                /\ \A k \in DOMAIN cands : Merges(cands[k], c) => cands[k].kind = c.kind
                /\ (cands # <<>> =>
                      LET p == cands[Len(cands)] IN
                      \/ p.s < c.s \/ (p.s = c.s /\ p.e <= c.e))
                /\ cands' = Append(cands, c)
           /\ UNCHANGED <<sp, pc, order, i, offset, last, words, ctoks>>

Next == AddCand \/ StartLoop \/ LoopStep \/ TailStep
Spec == Init /\ [][Next]_vars

(* C15 / C13(i): the result is a function of the candidate SET whenever equal
   spans always merge; it may depend on the order otherwise (ties) *)
Reverse2(cs) == [k \in 1..Len(cs) |-> cs[Len(cs) + 1 - k]]
NoUnmergedTie == \A a, b \in DOMAIN cands :
                    (a # b /\ cands[a].s = cands[b].s /\ cands[a].e = cands[b].e)
                        => Merges(cands[a], cands[b])
OrderIndependent == (pc = "done" /\ NoUnmergedTie) =>
                       Run(sp, Reverse2(cands), N) = [words |-> words, ctoks |-> ctoks]

(* binding (B): one line per terminal state *)
EmitDone == pc = "done" =>
    PrintT(<<"R", ToJson([sp |-> sp, cands |-> cands, words |-> words, ctoks |-> ctoks])>>)
=============================================================================
