SPECIFICATION Spec
CONSTANTS
  ClampIndex = TRUE
  EmptySpanClamp = TRUE
  SkipReclip = TRUE
  EmptySourceFix = FALSE
  Tol = 10
  MaxToks = 5
  MaxAnns = 2
  WfOnly = FALSE
  Modes <- AllModes
  TokSet <- ToksDel
INVARIANT NoRaise
INVARIANT Additive
INVARIANT InOrder
CHECK_DEADLOCK FALSE
