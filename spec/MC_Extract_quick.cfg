SPECIFICATION Spec
CONSTANTS
  BackSeek = 3
  MaxMatch = 4
  PrefixFix = TRUE
  PlaintiffFix = TRUE
  TokenFloor = TRUE
  MaxWords = 4
INVARIANT Laws
CHECK_DEADLOCK FALSE
