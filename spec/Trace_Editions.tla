--------------------------- MODULE Trace_Editions ---------------------------
(* C18 on recorded results of get_citations(text) and get_citations(text, remove_ambiguous=True).
   Per citation: res (resource citation), year (-1 = None), myear4 (leading four digits of metadata.year as a number, -2 if none),
   exact / var (candidate edition keys), guess (key or ""), fs (raw full_span_start, -1 = None);
   eds: key -> <<start year, end year>> (-1 = open); today. *)
EXTENDS Editions, Json, IOUtils, Hits
Traces == JsonDeserialize(IOEnv.TRACE_FILE)
NT == Len(Traces)
VARIABLES tid, bucket
NB == 64
T(t) == Traces[t]
SetOf(s) == {s[k] : k \in DOMAIN s}
EdOf(tr, key) == [id |-> key, start |-> tr.eds[key][1], end |-> tr.eds[key][2]]
IncludesT(tr, key, y) == /\ y <= tr.today
                         /\ (tr.eds[key][1] = -1 \/ tr.eds[key][1] <= y)
                         /\ (tr.eds[key][2] = -1 \/ tr.eds[key][2] >= y)
Cands(c) == IF c.exact # <<>> THEN SetOf(c.exact) ELSE SetOf(c.var)
(* a citation's year is "its own" unless it starts where the preceding full case citation starts *)
Own(cs, k) == ~(k > 1 /\ cs[k].cls = "FullCaseCitation" /\ cs[k-1].cls = "FullCaseCitation"
                /\ cs[k].raw_fss # -1 /\ cs[k].raw_fss = cs[k-1].raw_fss)
Slim(c) == <<c.cls, c.s, c.e, c.guess, c.year>>

ClauseSeq == <<"C04.noraise", "C18.yearrange", "C18.yeartext", "C18.guessmember", "C18.guesssingle", "C18.guessneedsyear", "C18.guessonly", "C18.disambig">>
Clauses == {ClauseSeq[ci] : ci \in DOMAIN ClauseSeq}
ASSUME PrintT(<<"CLAUSES", ToJson(ClauseSeq)>>)
Holds(cl, t) ==
  LET tr == T(t)  cs == tr.def IN
  IF tr.raised # "" THEN cl # "C04.noraise"
  ELSE CASE cl = "C18.yearrange" -> \A k \in DOMAIN cs : (cs[k].res /\ cs[k].year # -1) =>
                                      (1600 <= cs[k].year /\ cs[k].year <= tr.today + 1)
    [] cl = "C18.yeartext" -> \A k \in DOMAIN cs : (cs[k].res /\ cs[k].year # -1) => cs[k].year = cs[k].myear4
    [] cl = "C18.guessmember" -> \A k \in DOMAIN cs : (cs[k].res /\ cs[k].guess # "") => cs[k].guess \in Cands(cs[k])
    [] cl = "C18.guesssingle" -> \A k \in DOMAIN cs : (cs[k].res /\ Cardinality(Cands(cs[k])) = 1) =>
                                      cs[k].guess \in Cands(cs[k])
    [] cl = "C18.guessneedsyear" -> \A k \in DOMAIN cs :
                                      \* (own year only: a parallel citation's year is overwritten by the inherited one -- possibly
                                      \*  None -- AFTER its edition was guessed with its own year, which is no longer observable)
                                      (cs[k].res /\ Cardinality(Cands(cs[k])) > 1 /\ cs[k].guess # "" /\ Own(cs, k)) => cs[k].year # -1
    [] cl = "C18.guessonly" -> \A k \in DOMAIN cs :
                                      (cs[k].res /\ Cardinality(Cands(cs[k])) > 1 /\ cs[k].guess # "" /\ cs[k].year # -1 /\ Own(cs, k)) =>
                                      {e \in Cands(cs[k]) : IncludesT(tr, e, cs[k].year)} = {cs[k].guess}
    [] cl = "C18.disambig" -> [k \in DOMAIN tr.ra |-> Slim(tr.ra[k])]
                                = [k \in DOMAIN SelectSeq(cs, LAMBDA c : ~c.res \/ c.guess # "") |->
                                      Slim(SelectSeq(cs, LAMBDA c : ~c.res \/ c.guess # "")[k])]
    [] OTHER -> TRUE

TInit == tid = 0 /\ bucket \in 0..(NB - 1)
TNext == tid = 0 /\ (\E t \in {x \in 1..NT : x % NB = bucket} : tid' = t) /\ UNCHANGED bucket
TSpec == TInit /\ [][TNext]_<<tid, bucket>>
Exercised(cl, t) ==
  LET tr == T(t)  cs == tr.def IN
  IF cl = "C04.noraise" THEN TRUE
  ELSE IF tr.raised # "" THEN FALSE
  ELSE CASE cl \in {"C18.yearrange", "C18.yeartext"} -> \E k \in DOMAIN cs : cs[k].res /\ cs[k].year # -1
    [] cl = "C18.guessmember" -> \E k \in DOMAIN cs : cs[k].res /\ cs[k].guess # ""
    [] cl = "C18.guesssingle" -> \E k \in DOMAIN cs : cs[k].res /\ Cardinality(Cands(cs[k])) = 1
    [] cl = "C18.guessneedsyear" -> \E k \in DOMAIN cs : cs[k].res /\ Cardinality(Cands(cs[k])) > 1 /\ cs[k].guess # "" /\ Own(cs, k)
    [] cl = "C18.guessonly" -> \E k \in DOMAIN cs : cs[k].res /\ Cardinality(Cands(cs[k])) > 1 /\ cs[k].guess # "" /\ cs[k].year # -1 /\ Own(cs, k)
    [] cl = "C18.disambig" -> \E k \in DOMAIN cs : cs[k].res /\ cs[k].guess = ""      \* something is removed
    [] OTHER -> FALSE
Judge == tid # 0 => (/\ \A cl \in Clauses : Holds(cl, tid) \/ PrintT(<<"FAIL", tid, cl>>)
   /\ PrintT(<<"HIT", tid, Mask([ci \in DOMAIN ClauseSeq |-> Exercised(ClauseSeq[ci], tid)])>>))
(* conformance: the model's Guess on the recorded candidates and year gives the recorded guess *)
Conform == (tid # 0 /\ T(tid).raised = "") =>
   (\A k \in DOMAIN T(tid).def : LET c == T(tid).def[k]  tr == T(tid) IN
        \* (a parallel citation inherits its year AFTER its edition was guessed: its year at guess time is
        \*  not recorded, so its guess is not recomputed)
        (c.res /\ Own(T(tid).def, k)) => LET g == Guess({EdOf(tr, x) : x \in SetOf(c.exact)}, {EdOf(tr, x) : x \in SetOf(c.var)}, c.year)
                 IN (IF g = NoGuess THEN "" ELSE g.id) = c.guess)
   \/ PrintT(<<"DRIFT", tid>>)
Done == tid # 0 => PrintT(<<"DONE", tid>>)
=============================================================================
