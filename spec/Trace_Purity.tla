---------------------------- MODULE Trace_Purity ----------------------------
(* C15 on recorded executions: every call of get_citations (made in some process with some
   PYTHONHASHSEED, on some thread, after / during some other calls) is one record:
     d     digest of the serialised result (kinds, spans, groups, metadata, candidate editions,
           guess, value hashes)
     dend  digest of the same result object re-serialised after all later calls finished
     base  digest of the result of the same (text, options) in a fresh single-threaded process
     same_input  the text object was unchanged after the call *)
EXTENDS Integers, Sequences, Json, IOUtils, TLC, Hits
Traces == JsonDeserialize(IOEnv.TRACE_FILE)
NT == Len(Traces)
VARIABLES tid, bucket
NB == 64
T(t) == Traces[t]
ClauseSeq == <<"C15.samecall", "C15.frozen", "C15.input">>
Clauses == {ClauseSeq[ci] : ci \in DOMAIN ClauseSeq}
ASSUME PrintT(<<"CLAUSES", ToJson(ClauseSeq)>>)
Holds(cl, t) ==
  CASE cl = "C15.samecall" -> T(t).d = T(t).base
    [] cl = "C15.frozen"   -> T(t).dend = T(t).d
    [] cl = "C15.input"    -> T(t).same_input
    [] OTHER -> TRUE
TInit == tid = 0 /\ bucket \in 0..(NB - 1)
TNext == tid = 0 /\ (\E t \in {x \in 1..NT : x % NB = bucket} : tid' = t) /\ UNCHANGED bucket
TSpec == TInit /\ [][TNext]_<<tid, bucket>>
(* a call is non-trivial when it returned something (the digest of the empty result differs) *)
Exercised(cl, t) == T(t).nonempty
Judge == tid # 0 => (/\ \A cl \in Clauses : Holds(cl, tid) \/ PrintT(<<"FAIL", tid, cl>>)
   /\ PrintT(<<"HIT", tid, Mask([ci \in DOMAIN ClauseSeq |-> Exercised(ClauseSeq[ci], tid)])>>))
Done == tid # 0 => PrintT(<<"DONE", tid>>)
=============================================================================
