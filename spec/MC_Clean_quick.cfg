SPECIFICATION Spec
CONSTANTS
  MaxLen = 6
  MaxDoc = 6
  EmitLen = 5
INVARIANT TextLaws
INVARIANT Composition
INVARIANT VisibleSound
INVARIANT EmitText
INVARIANT EmitDoc
CHECK_DEADLOCK FALSE
