SPECIFICATION TSpec
INVARIANT Judge
INVARIANT Conform
INVARIANT Done
CHECK_DEADLOCK FALSE
