----------------------------- MODULE Trace_Forms -----------------------------
(* C01 on recorded results: a Forms.tla document, the concrete expectation derived from the
   slot-level ground truth (exp: one record per written citation) and the projected result of
   get_citations (obs).  Text fields that need suffix / whitespace reasoning travel as code points. *)
EXTENDS Integers, Sequences, FiniteSets, Json, IOUtils, TLC, Hits
Traces == JsonDeserialize(IOEnv.TRACE_FILE)
NT == Len(Traces)
VARIABLES tid, bucket
NB == 64
T(t) == Traces[t]
SetOf(s) == {s[k] : k \in DOMAIN s}
IsWs(c) == c \in {32, 9, 10, 13}
(* number of whitespace characters directly after offset p *)
RECURSIVE WsAfter(_, _)
WsAfter(txt, p) == IF p + 1 <= Len(txt) /\ IsWs(txt[p + 1]) THEN 1 + WsAfter(txt, p + 1) ELSE 0
IsSuffix(a, b) == Len(a) <= Len(b) /\ SubSeq(b, Len(b) - Len(a) + 1, Len(b)) = a

Paired(tr) == Len(tr.obs) = Len(tr.exp)
ClauseSeq == <<"C04.noraise", "C01.count", "C01.kind", "C01.span", "C01.groups", "C01.pin", "C01.year", "C01.court", "C01.defendant", "C01.plaintiff", "C01.antecedent", "C01.paren", "C01.fullstart", "C01.fullend", "C01.editions">>
Clauses == {ClauseSeq[ci] : ci \in DOMAIN ClauseSeq}
ASSUME PrintT(<<"CLAUSES", ToJson(ClauseSeq)>>)
Each(tr, P(_, _)) == Paired(tr) => \A k \in DOMAIN tr.exp : P(tr.exp[k], tr.obs[k])
Holds(cl, t) ==
  LET tr == T(t) IN
  IF tr.raised # "" THEN cl # "C04.noraise"
  ELSE CASE cl = "C01.count" -> Paired(tr)
    [] cl = "C01.kind"   -> Each(tr, LAMBDA e, o : o.cls = e.kind)
    [] cl = "C01.span"   -> Each(tr, LAMBDA e, o : o.s = e.s /\ (IF e.e_upper THEN o.s < o.e /\ o.e <= e.e ELSE o.e = e.e))
    [] cl = "C01.groups" -> Each(tr, LAMBDA e, o : \A g \in DOMAIN e.groups : g \in DOMAIN o.groups /\ o.groups[g] = e.groups[g])
    [] cl = "C01.pin"    -> Each(tr, LAMBDA e, o : e.pin_any \/ o.pin_cite = e.pin)
    [] cl = "C01.year"   -> Each(tr, LAMBDA e, o : o.myear = e.year /\ (e.year # "" => o.year = e.yearnum))
    [] cl = "C01.court"  -> Each(tr, LAMBDA e, o : e.has_court => o.court \in SetOf(e.court))
    [] cl = "C01.defendant"  -> Each(tr, LAMBDA e, o : e.defendant # "" => o.defendant = e.defendant)
    [] cl = "C01.plaintiff"  -> Each(tr, LAMBDA e, o : e.plaintiff # "" => (o.plaintiff_cp # <<>> /\ IsSuffix(o.plaintiff_cp, e.plaintiff_cp)))
    [] cl = "C01.antecedent" -> Each(tr, LAMBDA e, o : e.antecedent # "" => o.antecedent = e.antecedent)
    [] cl = "C01.paren"      -> Each(tr, LAMBDA e, o : o.paren = e.paren)
    [] cl = "C01.fullstart"  -> Each(tr, LAMBDA e, o :
                                   CASE e.fs_kind = "plaintiff" -> o.fs = e.pl_end - Len(o.plaintiff_cp)
                                     [] e.fs_kind = "antecedent" -> o.fs = e.fs
                                     [] OTHER -> TRUE)
    [] cl = "C01.fullend"    -> Each(tr, LAMBDA e, o : e.fe # -1 =>
                                   (IF e.fe_upper THEN o.e <= o.fe /\ o.fe <= e.fe + WsAfter(tr.text, e.fe)
                                    ELSE e.fe <= o.fe /\ o.fe <= e.fe + WsAfter(tr.text, e.fe)))
    [] cl = "C01.editions"   -> Each(tr, LAMBDA e, o : e.check_editions => SetOf(e.editions) \subseteq SetOf(o.editions))
    [] OTHER -> TRUE
TInit == tid = 0 /\ bucket \in 0..(NB - 1)
TNext == tid = 0 /\ (\E t \in {x \in 1..NT : x % NB = bucket} : tid' = t) /\ UNCHANGED bucket
TSpec == TInit /\ [][TNext]_<<tid, bucket>>
Some(tr, P(_)) == Paired(tr) /\ \E k \in DOMAIN tr.exp : P(tr.exp[k])
Exercised(cl, t) ==
  LET tr == T(t) IN
  IF cl = "C04.noraise" THEN TRUE
  ELSE IF tr.raised # "" THEN FALSE
  ELSE CASE cl = "C01.count" -> tr.exp # <<>>
    [] cl \in {"C01.kind", "C01.span"} -> Some(tr, LAMBDA e : TRUE)
    [] cl = "C01.groups" -> Some(tr, LAMBDA e : DOMAIN e.groups # {})
    [] cl = "C01.pin"    -> Some(tr, LAMBDA e : ~e.pin_any /\ e.pin # "")
    [] cl = "C01.year"   -> Some(tr, LAMBDA e : e.year # "")
    [] cl = "C01.court"  -> Some(tr, LAMBDA e : e.has_court)
    [] cl = "C01.defendant"  -> Some(tr, LAMBDA e : e.defendant # "")
    [] cl = "C01.plaintiff"  -> Some(tr, LAMBDA e : e.plaintiff # "")
    [] cl = "C01.antecedent" -> Some(tr, LAMBDA e : e.antecedent # "")
    [] cl = "C01.paren"      -> Some(tr, LAMBDA e : e.paren # "")
    [] cl = "C01.fullstart"  -> Some(tr, LAMBDA e : e.fs_kind # "none")
    [] cl = "C01.fullend"    -> Some(tr, LAMBDA e : e.fe # -1)
    [] cl = "C01.editions"   -> Some(tr, LAMBDA e : e.check_editions)
    [] OTHER -> FALSE
Judge == tid # 0 => (/\ \A cl \in Clauses : Holds(cl, tid) \/ PrintT(<<"FAIL", tid, cl>>)
   /\ PrintT(<<"HIT", tid, Mask([ci \in DOMAIN ClauseSeq |-> Exercised(ClauseSeq[ci], tid)])>>))
Done == tid # 0 => PrintT(<<"DONE", tid>>)
=============================================================================
