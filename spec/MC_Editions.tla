----------------------------- MODULE MC_Editions -----------------------------
(* every candidate configuration over a three-edition database with every bound pattern,
   every year on both sides of every boundary, both year paths *)
EXTENDS Editions
CONSTANTS Years, UncheckedPreYear
VARIABLES exact, var, ty, path, year, g
vars == <<exact, var, ty, path, year, g>>
Bounds == Years \cup {NoBound}
Eds == {[id |-> i, start |-> s, end |-> e] : i \in 1..4, s \in Bounds, e \in Bounds}
Init == /\ exact = {} /\ var = {} /\ ty = NoYear /\ path = "none" /\ year = NoYear /\ g = NoGuess
WellFormedEd(e) == e.start = NoBound \/ e.end = NoBound \/ e.start <= e.end
(* candidates are added one at a time (ids increasing, so every set is built once) *)
MaxId == IF exact \cup var = {} THEN 0 ELSE CHOOSE m \in {e.id : e \in exact \cup var} :
                                             \A e \in exact \cup var : e.id <= m
AddExact == /\ path = "none" /\ Cardinality(exact) < 2 /\ var = {}
            /\ \E e \in Eds : e.id = MaxId + 1 /\ WellFormedEd(e) /\ exact' = exact \cup {e}
            /\ UNCHANGED <<var, ty, path, year, g>>
AddVar == /\ path = "none" /\ Cardinality(var) < 2
          /\ \E e \in Eds : e.id = MaxId + 1 /\ WellFormedEd(e) /\ var' = var \cup {e}
          /\ UNCHANGED <<exact, ty, path, year, g>>
Choose == /\ path = "none" /\ exact \cup var # {}
          /\ \E y \in Years \cup {NoYear, 0, Today + 2}, p \in {"post", "pre"} :
               /\ ty' = y /\ path' = p
               /\ year' = IF p = "pre" /\ UncheckedPreYear THEN GetYearUnchecked(y) ELSE GetYear(y)
               /\ g' = Guess(exact, var, year')
          /\ UNCHANGED <<exact, var>>
Next == AddExact \/ AddVar \/ Choose
Spec == Init /\ [][Next]_vars
YearSound  == path # "none" => YearOK(ty, year)
GuessSound == path # "none" => GuessOK(exact, var, year, g)
=============================================================================
