------------------------------ MODULE MC_Meta ------------------------------
(* Model-checking instance of Meta.tla.
   (1) helpers.process_parenthetical as the loop the code runs (one action per character, the state
       the code keeps: position and paren balance) over EVERY text of <= MaxLen characters of the
       alphabet ( ) letter digit; laws: the loop computes the closed form ProcessParen; the result is
       a prefix of the input (so it lies where the input lies: C17), is never the empty string, never
       contains an unmatched ")", and a text that starts like a year and has no unmatched ")" is None.
   (2) the strip helpers on every text of <= MaxLen characters of the alphabet blank comma ( letter:
       Strip returns a contiguous slice, is idempotent, CleanPin never starts or ends with blank / comma.
   (3) the parallel-citation fold over every sequence of <= MaxCites citations with abstract
       full-span starts and own party / year identities: an inherited value always originates from a
       citation with the same full-span start (the "joint extent" of C17), never from another one.
   (4) helpers.get_year on every string of <= 4 characters over the digits 0 1 2 5 6 7 9 and a letter:
       a number comes back only for four digits in 1600..HighestYear, and it is those four digits.
   Every finished input of (1), (2) and (4) is printed for replay through the real functions. *)
EXTENDS Meta, Json
CONSTANTS MaxLen, MaxCites, Emit
VARIABLES mode, txt, i, bal, out, pc, chain
vars == <<mode, txt, i, bal, out, pc, chain>>
AlphaP == {LP, RP, 97, 49}
AlphaS == {SP, CM, LP, 97}
AlphaY == {48, 49, 50, 53, 54, 55, 57, 97}
Undef == <<-2>>

Init == /\ mode \in {"paren", "strip", "fold", "year"} /\ txt = <<>> /\ i = 0 /\ bal = 0 /\ out = Undef /\ pc = "build" /\ chain = <<>>

(* ---- (1) process_parenthetical ---- *)
Build == /\ pc = "build" /\ mode \in {"paren", "strip", "year"} /\ Len(txt) < (IF mode = "year" THEN 4 ELSE MaxLen)
         /\ \E c \in (IF mode = "paren" THEN AlphaP ELSE IF mode = "strip" THEN AlphaS ELSE AlphaY) : txt' = Append(txt, c)
         /\ UNCHANGED <<mode, i, bal, out, pc, chain>>
Start == /\ pc = "build" /\ mode = "paren" /\ pc' = "loop" /\ UNCHANGED <<mode, txt, i, bal, out, chain>>
(* for i, char in enumerate(p): update the balance; if it went negative return p[:i] or None *)
LoopStep == /\ pc = "loop" /\ i < Len(txt)
            /\ LET c == txt[i + 1]
                   b == bal + (IF c = LP THEN 1 ELSE IF c = RP THEN -1 ELSE 0)
               IN IF b < 0 THEN /\ out' = OrNone(SubSeq(txt, 1, i)) /\ pc' = "done" /\ UNCHANGED <<i, bal>>
                  ELSE /\ i' = i + 1 /\ bal' = b /\ UNCHANGED <<out, pc>>
            /\ UNCHANGED <<mode, txt, chain>>
(* after the loop: a year parenthetical is not a parenthetical; "" is None *)
LoopEnd == /\ pc = "loop" /\ i = Len(txt)
           /\ out' = (IF YearLike(txt) THEN None ELSE OrNone(txt)) /\ pc' = "done"
           /\ UNCHANGED <<mode, txt, i, bal, chain>>
(* ---- (2) strip helpers: one step ---- *)
StripStep == /\ pc = "build" /\ mode = "strip" /\ out' = CleanPin(txt) /\ pc' = "done"
             /\ UNCHANGED <<mode, txt, i, bal, chain>>
YearStep == /\ pc = "build" /\ mode = "year" /\ Len(txt) = 4 /\ out' = <<GetYear(txt)>> /\ pc' = "done"
            /\ UNCHANGED <<mode, txt, i, bal, chain>>
(* ---- (3) parallel fold: chain of [full, fs, own, got] ---- *)
FsVals == {NoInt, 0, 1}
AddCite == /\ mode = "fold" /\ pc = "build" /\ Len(chain) < MaxCites
           /\ \E full \in BOOLEAN, fs \in FsVals :
                LET k == Len(chain) + 1
                    prev == IF k = 1 THEN [full |-> FALSE, fs |-> NoInt, got |-> 0] ELSE chain[k - 1]
                    got == IF full /\ prev.full /\ fs # NoInt /\ fs = prev.fs THEN prev.got ELSE k
                IN chain' = Append(chain, [full |-> full, fs |-> fs, got |-> got])
           /\ UNCHANGED <<mode, txt, i, bal, out, pc>>
Next == Build \/ Start \/ LoopStep \/ LoopEnd \/ StripStep \/ YearStep \/ AddCite
Spec == Init /\ [][Next]_vars

IsPrefix(a, b) == Len(a) <= Len(b) /\ SubSeq(b, 1, Len(a)) = a
ParenLaws == (mode = "paren" /\ pc = "done") =>
   /\ out = ProcessParen(txt)                                   \* the loop refines the closed form
   /\ out # <<>>                                                \* never the empty string
   /\ out # None => /\ IsPrefix(out, txt)
                    /\ \A k \in 0..Len(out) : Balance(out)[k] >= 0   \* no unmatched ")"
                    /\ (Len(out) < Len(txt) => txt[Len(out) + 1] = RP)   \* cut exactly at a closing paren
   /\ (YearLike(txt) /\ \A k \in 0..Len(txt) : Balance(txt)[k] >= 0) => out = None
LoopInv == (mode = "paren" /\ pc = "loop") => /\ i <= Len(txt) /\ bal = Balance(txt)[i] /\ bal >= 0
                                             /\ \A k \in 0..i : Balance(txt)[k] >= 0
IsSlice(a, b) == \E s \in 0..(Len(b) - Len(a)) : SubSeq(b, s + 1, s + Len(a)) = a
StripLaws == (mode = "strip" /\ pc = "done") =>
   /\ IsSlice(out, txt) /\ CleanPin(out) = out
   /\ out # <<>> => out[1] \notin {CM, SP} /\ out[Len(out)] \notin {CM, SP}
   /\ Len(out) + LCount(txt, {CM, SP}) + RCount(LStrip(txt, {CM, SP}), {CM, SP}) = Len(txt)
   /\ Strip(txt, {LP, SP}) = RStrip(LStrip(txt, {LP, SP}), {LP, SP})
(* C17's joint extent: whatever a citation ends up with originates from a citation that is a full
   case citation with the same full-span start, reached through an unbroken run of such citations *)
FoldLaws == mode = "fold" => \A k \in DOMAIN chain :
   LET g == chain[k].got IN
   /\ g <= k
   /\ g # k => /\ chain[k].full /\ chain[k].fs # NoInt
               /\ \A j \in g..k : chain[j].full /\ chain[j].fs = chain[k].fs
YearLaws == (mode = "year" /\ pc = "done") =>
   LET y == out[1] IN
   /\ y # NoInt => /\ AllDigits(txt) /\ y >= 1600 /\ y <= HighestYear
                   /\ y = (txt[1] - 48) * 1000 + (txt[2] - 48) * 100 + (txt[3] - 48) * 10 + (txt[4] - 48)
   /\ (AllDigits(txt) /\ y = NoInt) => (txt[1] = 48 \/ (txt[1] = 49 /\ txt[2] \in {48, 49, 50, 53}) \/ txt[1] >= 50)
EmitDone == (Emit /\ pc = "done") => PrintT(<<"EMIT", ToJson([mode |-> mode, txt |-> txt, out |-> out])>>)
=============================================================================
