SPECIFICATION Spec
CONSTANTS
  NoId = 0
  Today = 5
  MinYear = 1
  DB <- ToyDB
INVARIANT Laws
INVARIANT Symmetric
INVARIANT Reflexive
INVARIANT MetaFree
CHECK_DEADLOCK FALSE
