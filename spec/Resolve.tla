------------------------------ MODULE Resolve ------------------------------
(***************************************************************************)
(* eyecite.resolve.resolve_citations with the default resolvers, as a       *)
(* state machine: one action per loop iteration (one citation consumed).    *)
(*                                                                          *)
(* Abstract citations are records with the same fields for every kind:      *)
(*   k   kind: "fc" full case, "fl" full law, "fj" full journal,            *)
(*             "sc" short case, "su" supra, "rf" reference, "id", "un"      *)
(*   rv  normalised (reporter, volume) key of case citations, "" otherwise  *)
(*   pg  first page: a number, NoPage (= placeholder page, Python None)     *)
(*       or NoGroup (the citation has no page group at all, e.g. statutes)  *)
(*   pl, df  party names as sets of name atoms ({} = no name extracted)     *)
(*   ag  antecedent guess of sc / su: one atom or NoName                    *)
(*   nm  names carried by a reference citation (set of party-name sets)     *)
(*   pin pin cite of an id. citation: number, NoPin or BadPin (non-numeric) *)
(*   id  identity of a law / journal citation (all groups + editions)       *)
(*                                                                          *)
(* A party name "contains" an antecedent atom iff the atom is a member      *)
(* (concretisation renders atoms as words none of which is a substring of   *)
(* another, so Python's `in` on strings is set membership here).            *)
(*                                                                          *)
(* State is history-free: the list resolved_full_cites is kept as a set     *)
(* (only membership is ever used), resources are named by what makes them   *)
(* equal (kind, rv/id, page), placeholder-page case citations get a fresh   *)
(* number.  No step counter, no consumed input.                             *)
(***************************************************************************)
EXTENDS Integers, Sequences, FiniteSets, TLC

CONSTANTS M,          \* MAX_OPINION_PAGE_COUNT (150 in the code)
          HugeFix,    \* TRUE: the code as repaired (a page int() cannot convert is beyond every pin cite);
                      \* FALSE: the original code (int(page) raises ValueError for > 4300 digits)
          Alphabet,   \* the citations that can occur (model checking only)
          MaxPh       \* bound on placeholder-page case citations per list (model checking only)

NoPage  == -1
NoGroup == -2
NonNumeric == -3      \* a page group that is not a number (e.g. "95,342"): identified by its text in `id`
Big     == -4         \* an all-digit page beyond every pin cite of the alphabet (10 .. 4300 digits); text in `id`
Huge    == -5         \* an all-digit page of more digits than int() converts (sys.get_int_max_str_digits()
                      \* = 4300 since Python 3.11); text in `id`
TextPages == {NonNumeric, Big, Huge}
NoPin   == -1
BadPin  == -2
NoName  == "-"
NoRes   == <<"none", "", 0>>

FullKinds == {"fc", "fl", "fj"}
IsFull(c) == c.k \in FullKinds

VARIABLES fulls,    \* set of [c |-> citation, r |-> resource]: resolved_full_cites
          last,     \* last_resolution (NoRes = None)
          nph,      \* number of placeholder-page case resources created so far
          cur,      \* the citation consumed by the last step   (observation)
          joined,   \* the resource it was appended to, or NoRes (observation)
          err       \* "none" or the Python exception the step would raise
vars == <<fulls, last, nph, cur, joined, err>>
core == <<fulls, last, nph>>        \* VIEW for model checking: observations hidden

-----------------------------------------------------------------------------
(* resolve_full_citation + Resource.__hash__ + CaseCitation.__hash__ *)
ResourceOf(c, n) ==
    IF c.k = "fc"
    THEN IF c.pg = NoPage THEN <<"ph", "", n + 1>>      \* hash by identity: fresh
                          ELSE IF c.pg \in TextPages THEN <<"fc", c.rv \o "#" \o c.id, c.pg>>
                          ELSE <<"fc", c.rv, c.pg>>     \* volume, reporter, page
    ELSE <<c.k, c.id, c.pg>>                            \* all groups + editions

HeadIsCase(r) == r[1] \in {"fc", "ph"}
HeadPage(r)   == IF r[1] = "ph" THEN NoPage ELSE r[3]

(* _filter_by_matching_antecedent over a set of resolved full cites *)
AnteMatches(S, ag) ==
    { f.r : f \in { g \in S : g.c.k = "fc" /\ (ag \in g.c.df \/ ag \in g.c.pl) } }

One(R) == IF Cardinality(R) = 1 THEN CHOOSE x \in R : TRUE ELSE NoRes

ResolveShort(c) ==
    LET cands == { f \in fulls : f.c.k = "fc" /\ f.c.rv = c.rv }
        rs    == { f.r : f \in cands }
    IN  IF Cardinality(rs) = 1 THEN CHOOSE x \in rs : TRUE
        ELSE IF c.ag # NoName THEN One(AnteMatches(cands, c.ag))
        ELSE NoRes

ResolveSupra(c) == IF c.ag = NoName THEN NoRes ELSE One(AnteMatches(fulls, c.ag))

(* _filter_by_matching_plaintiff_or_defendant_or_resolved_names: a reference
   name must EQUAL one of the full citation's metadata values *)
RefMatches(c) == { f.r : f \in { g \in fulls : g.c.k = "fc" /\
                                   (g.c.pl \in c.nm \/ g.c.df \in c.nm) } }
ResolveRef(c) == IF c.nm = {} THEN NoRes ELSE One(RefMatches(c))

(* _has_invalid_pin_cite: returns <<invalid?, exception>> *)
InvalidPin(r, c) ==
    IF HeadPage(r) = NoPage THEN <<TRUE, "none">>               \* known missing page (any kind)
    ELSE IF c.pin = NoPin THEN <<FALSE, "none">>
    ELSE IF HeadPage(r) \in {NoGroup, NonNumeric} THEN <<FALSE, "none">>   \* groups.get("page","") not all digits
    ELSE IF HeadPage(r) = Huge THEN IF HugeFix THEN <<TRUE, "none">> ELSE <<FALSE, "ValueError">>   \* int(page)
    ELSE IF c.pin = BadPin THEN <<TRUE, "none">>
    ELSE IF HeadPage(r) = Big THEN <<TRUE, "none">>                       \* every pin cite lies before it
    ELSE <<c.pin < HeadPage(r) \/ c.pin > HeadPage(r) + M, "none">>

ResolveId(c) ==
    IF last = NoRes THEN <<NoRes, "none">>
    ELSE LET iv == InvalidPin(last, c) IN
         IF iv[2] # "none" THEN <<NoRes, iv[2]>>
         ELSE IF iv[1] THEN <<NoRes, "none">> ELSE <<last, "none">>

-----------------------------------------------------------------------------
Init == /\ fulls = {} /\ last = NoRes /\ nph = 0
        /\ cur = [k |-> "start"] /\ joined = NoRes /\ err = "none"

Step(c) ==
    /\ err = "none"
    /\ cur' = c
    /\ IF IsFull(c)
       THEN LET r == ResourceOf(c, nph) IN
            /\ fulls' = fulls \cup {[c |-> c, r |-> r]}
            /\ nph' = IF r[1] = "ph" THEN nph + 1 ELSE nph
            /\ joined' = r /\ last' = r /\ err' = "none"
       ELSE LET res == CASE c.k = "sc" -> <<ResolveShort(c), "none">>
                         [] c.k = "su" -> <<ResolveSupra(c), "none">>
                         [] c.k = "rf" -> <<ResolveRef(c), "none">>
                         [] c.k = "id" -> ResolveId(c)
                         [] OTHER      -> <<NoRes, "none">>
            IN /\ joined' = res[1] /\ last' = res[1] /\ err' = res[2]
               /\ UNCHANGED <<fulls, nph>>

Next == \E c \in Alphabet : (c.k = "fc" /\ c.pg = NoPage => nph < MaxPh) /\ Step(c)
Spec == Init /\ [][Next]_vars

-----------------------------------------------------------------------------
(* Properties.  Candidates is written from the text of C07, not from the code. *)
Parties(f) == f.c.pl \cup f.c.df
SameRV(c)  == { f \in fulls : f.c.k = "fc" /\ f.c.rv = c.rv }
Candidates(c) ==
    CASE c.k = "sc" -> LET S == SameRV(c) IN
                       IF Cardinality({f.r : f \in S}) = 1 THEN {f.r : f \in S}
                       ELSE IF c.ag = NoName THEN {}
                       ELSE LET T == {f.r : f \in {g \in S : c.ag \in Parties(g)}} IN
                            IF Cardinality(T) = 1 THEN T ELSE {}
      [] c.k = "su" -> LET T == {f.r : f \in {g \in fulls : g.c.k = "fc" /\ c.ag # NoName
                                                        /\ c.ag \in Parties(g)}} IN
                       IF Cardinality(T) = 1 THEN T ELSE {}
      [] c.k = "rf" -> LET T == {f.r : f \in {g \in fulls : g.c.k = "fc" /\
                                              (g.c.pl \in c.nm \/ g.c.df \in c.nm)}} IN
                       IF Cardinality(T) = 1 THEN T ELSE {}
      [] c.k = "id" -> IF last = NoRes THEN {}
                       ELSE IF HeadPage(last) = NoPage THEN {}
                       ELSE IF c.pin = NoPin THEN {last}
                       ELSE IF HeadPage(last) \in {NoGroup, NonNumeric} THEN {last}
                       ELSE IF c.pin = BadPin THEN {}
                       ELSE IF HeadPage(last) \in {Big, Huge} THEN {}      \* the pin cite lies before the first page
                       ELSE IF c.pin < HeadPage(last) \/ c.pin > HeadPage(last) + M THEN {}
                       ELSE {last}
      [] OTHER      -> {}

TypeOK == /\ \A f \in fulls : IsFull(f.c)
          /\ last \in {NoRes} \cup {f.r : f \in fulls}
          /\ joined \in {NoRes} \cup {f.r : f \in fulls}

(* C04: the loop is total *)
NoRaise == err = "none"

(* C06: a full citation always lands under its own resource; unknown never joins;
   two full citations share a resource iff equal *)
FullJoinsOwn == [][ IsFull(cur') => (joined' # NoRes /\ [c |-> cur', r |-> joined'] \in fulls') ]_vars
UnknownNever == [][ cur'.k = "un" => joined' = NoRes ]_vars
ShareIffEqual ==
    \A f, g \in fulls : (f.r = g.r) <=>
        \/ (f.c.k = "fc" /\ g.c.k = "fc" /\ f.c.rv = g.c.rv /\ f.c.pg = g.c.pg /\ f.c.pg # NoPage)
        \/ (f.c.k # "fc" /\ f.c.k = g.c.k /\ f.c.id = g.c.id /\ f.c.pg = g.c.pg)
        \/ f = g
(* C06/C08: a non-full citation joins only a resource introduced by an EARLIER
   full citation (fulls is the pre-state), and the state only grows *)
Grow        == [][ (~IsFull(cur') /\ joined' # NoRes) => joined' \in {f.r : f \in fulls} ]_vars
PrefixStable== [][ fulls \subseteq fulls' ]_vars

(* C07 *)
NeverGuess == [][ (~IsFull(cur') /\ joined' # NoRes /\ err' = "none")
                    => Candidates(cur') = {joined'} ]_vars
IdOnlyPredecessor == [][ (cur'.k = "id" /\ joined' # NoRes) => joined' = last ]_vars
LastIsOutcome == [][ last' = joined' ]_vars
=============================================================================
