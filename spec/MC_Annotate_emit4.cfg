SPECIFICATION Spec
CONSTANTS
  ClampIndex = TRUE
  EmptySpanClamp = TRUE
  SkipReclip = TRUE
  EmptySourceFix = TRUE
  Tol = 10
  MaxToks = 4
  MaxAnns = 2
  WfOnly = FALSE
  Modes <- AllModes
  TokSet <- ToksBasic
INVARIANT NoRaise
INVARIANT Additive
INVARIANT WellFormedOut
INVARIANT ExactEnclosure
INVARIANT InOrder
INVARIANT WrapKeepsAll
INVARIANT EmitDone
CHECK_DEADLOCK FALSE
