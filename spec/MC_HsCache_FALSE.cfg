SPECIFICATION Spec
CONSTANTS
  CatchAll = FALSE
  MaxFaults = 3
CONSTRAINT Bound
INVARIANT NeverRaises
INVARIANT ReadyIsUsable
PROPERTY LoadedOnlyIntact
INVARIANT Emit
CHECK_DEADLOCK FALSE
