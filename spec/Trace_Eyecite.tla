---------------------------- MODULE Trace_Eyecite ----------------------------
(* Trace validation of whole recorded sessions against Eyecite.tla: one event per public call,
   logged at the call's return (on the error path too), full projected result logged.
   Each trace action is IsEvent(e) /\ <bind the logged fields> /\ the specification's action.
   A session is accepted iff it is consumed to the end (<<"DONE", tid>>); a call that raised has no
   action in the specification (C04).  Monitors stay total: a raised call is also reported as
   <<"FAIL", tid, "C04.noraise">> so that the failing clause is named. *)
EXTENDS Eyecite, Json, IOUtils, Hits
Traces == JsonDeserialize(IOEnv.TRACE_FILE)
NT == Len(Traces)
VARIABLES tid, l, bucket
NB == 64
tvars == <<vars, tid, l, bucket>>
Ev(t, k) == Traces[t].events[k]
Cites(e) == [k \in DOMAIN e.cites |-> [s |-> e.cites[k].s, e |-> e.cites[k].e, kind |-> e.cites[k].kind]]
Pairs(w) == [k \in DOMAIN w |-> <<w[k][1], w[k][2]>>]

TInit == /\ tid = 0 /\ l = 0 /\ bucket \in 0..(NB - 1)
         /\ stage = "start" /\ n = 0 /\ cites = <<>> /\ groups = <<>> /\ wrapped = <<>>
         /\ cfg = [tok |-> "aho", ra |-> FALSE, mode |-> "unchecked"]
Pick == /\ tid = 0 /\ \E t \in {x \in 1..NT : x % NB = bucket} : tid' = t /\ n' = Traces[t].n
        /\ l' = 1 /\ UNCHANGED <<stage, cfg, cites, groups, wrapped, bucket>>
IsEvent(name) == tid # 0 /\ l <= Len(Traces[tid].events) /\ Ev(tid, l).ev = name /\ Ev(tid, l).raised = ""
                 /\ l' = l + 1 /\ UNCHANGED <<tid, bucket>>
TGet == IsEvent("get_citations") /\ CallGetCitationsWith(Ev(tid, l).tok, Ev(tid, l).ra, Cites(Ev(tid, l)))
TRes == IsEvent("resolve") /\ CallResolveWith(Ev(tid, l).groups)
TAnn == IsEvent("annotate") /\
          (IF Ev(tid, l).exact THEN CallAnnotateWith(Ev(tid, l).mode, Pairs(Ev(tid, l).wrapped))
           ELSE CallAnnotateWith(Ev(tid, l).mode, [k \in DOMAIN cites |-> <<cites[k].s, cites[k].e>>]))
(* get_citations may be called again on the same text with another configuration *)
TAgain == IsEvent("reset") /\ stage' = "start" /\ cites' = <<>> /\ groups' = <<>> /\ wrapped' = <<>>
          /\ UNCHANGED <<n, cfg>>
(* markup sessions: clean_text first (the offsets then refer to the cleaned text), and the two-step
   flow: extra reference citations merged with filter_citations *)
TClean == IsEvent("clean") /\ CallCleanWith(Ev(tid, l).n_after)
TMerge == IsEvent("merge") /\ CallMergeWith(Cites(Ev(tid, l)))
TNext == Pick \/ TGet \/ TRes \/ TAnn \/ TAgain \/ TClean \/ TMerge
TSpec == TInit /\ [][TNext]_tvars

Raised == (tid # 0 /\ l <= Len(Traces[tid].events) /\ Ev(tid, l).raised # "")
             => PrintT(<<"FAIL", tid, "C04.noraise">>)
ClauseSeq == <<"C04.noraise">>
ASSUME PrintT(<<"CLAUSES", ToJson(ClauseSeq)>>)
(* a session is non-trivial when citations were found, resolved and annotated (Hits.tla) *)
NonTrivial(t) == \E k \in DOMAIN Traces[t].events : Traces[t].events[k].ev = "get_citations" /\ Traces[t].events[k].cites # <<>>
Done == (tid # 0 /\ l = Len(Traces[tid].events) + 1) =>
           (PrintT(<<"DONE", tid>>) /\ PrintT(<<"HIT", tid, Mask(<<NonTrivial(tid)>>)>>))
(* how far each session got: the last state of the longest matched prefix *)
Progress == tid # 0 => PrintT(<<"AT", tid, l>>)
=============================================================================
