------------------------- MODULE Trace_ExtractSteps -------------------------
(* Step-level conformance of the extractors' offset arithmetic (binding of Extract.tla):
   for every citation returned by get_citations the harness records
     - the token list of the document (kinds, lengths, trailing ';') from the public tokenize(),
     - the match_on_tokens events of that citation, logged by the guarded hook (window length and
       text, match span, group spans): they BIND the model's nondeterministic matcher results,
     - the spans the library returned.
   TLC recomputes every span with Extract.tla's operators and compares (DRIFT otherwise), and checks
   that each logged window has the length the model's window builder computes. *)
EXTENDS Extract, Json, IOUtils
Traces == JsonDeserialize(IOEnv.TRACE_FILE)
NT == Len(Traces)
VARIABLES tid, bucket
NB == 64
T(t) == Traces[t]
None == -99
Pick(a, b) == IF a = None \/ a = -1 THEN b ELSE a

Expected(r) ==
  LET ts == r.ts  te == r.te  f == r.fwd  b == r.back
      se == IF f.present THEN PinSpanEnd(te, f.pre, f.matched, f.pins) ELSE -1
  IN CASE r.form = "short" ->
            [s |-> ts, e |-> Pick(se, te), fs |-> ts - (IF b.present /\ b.matched THEN b.mlen ELSE 0),
             fe |-> Max(Pick(se, 0), te), ps |-> ts, pe |-> Max(te, Pick(se, te))]
       [] r.form = "supra" ->
            [s |-> ts, e |-> Pick(se, te), fs |-> ts - (IF b.present /\ b.matched THEN b.mlen ELSE 0),
             fe |-> Pick(se, te), ps |-> ts, pe |-> Max(te, Pick(se, te))]
       [] r.form = "id" ->
            [s |-> ts, e |-> Pick(se, te), fs |-> ts, fe |-> Pick(se, te), ps |-> ts, pe |-> Max(te, Pick(se, te))]
       [] r.form = "full" ->
            LET trim == IF f.matched /\ f.raw > f.proc /\ f.proc >= 0 THEN f.raw - f.proc ELSE 0
                fe0 == IF f.present /\ f.matched THEN te + f.mend - trim ELSE None
                pe0 == IF f.present /\ f.matched /\ f.pin > 0 THEN te + f.pin ELSE None
                off == Scan(r.words, r.idx, r.idx - 1, 0, r.lead, r.trail)
                fsD == IF off = -1 THEN None ELSE ts - off
                fsP == IF b.present /\ b.matched THEN ts - b.mlen ELSE None
                ps0 == IF b.present /\ b.matched /\ b.pin THEN ts - b.mlen ELSE None
            IN [s |-> ts, e |-> te, fs |-> IF fsP # None THEN fsP ELSE IF fsD # None THEN fsD ELSE ts,
                fe |-> IF fe0 = None THEN te ELSE fe0,
                ps |-> IF ps0 = None THEN ts ELSE Min(ps0, ts), pe |-> IF pe0 = None THEN te ELSE Max(pe0, te)]
       [] OTHER ->     \* law, journal
            LET trim == IF f.matched /\ f.raw > f.proc /\ f.proc >= 0 THEN f.raw - f.proc ELSE 0
            IN [s |-> ts, e |-> te, fs |-> ts, fe |-> IF f.present /\ f.matched THEN te + f.mend - trim ELSE te,
                ps |-> ts, pe |-> te]
WindowOK(r) ==
  \* (the window is cut to MAX_MATCH_CHARS when a token is appended: a bare prefix is never cut)
  /\ (r.fwd.present => LET fl == FwdLen(r.words, r.idx + 1, r.fwd.strings, 0) IN
                        r.fwd.wlen = IF fl = 0 THEN r.fwd.pre ELSE Min(r.fwd.pre + fl, MaxMatch))
  /\ (r.back.present => r.back.wlen = BackLen(r.words, r.idx - 1, 0))

TInit == tid = 0 /\ bucket \in 0..(NB - 1)
TNext == tid = 0 /\ (\E t \in {x \in 1..NT : x % NB = bucket} : tid' = t) /\ UNCHANGED bucket
TSpec == TInit /\ [][TNext]_<<tid, bucket>>
Conform == tid # 0 =>
   \A k \in DOMAIN T(tid).cites :
      LET r == T(tid).cites[k]  x == Expected(r) IN
      (x = r.obs /\ WindowOK(r)) \/ PrintT(<<"DRIFT", tid, k>>)
Done == tid # 0 => PrintT(<<"DONE", tid>>)
=============================================================================
