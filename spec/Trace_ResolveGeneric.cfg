SPECIFICATION TSpec
CONSTANTS
  MaxLen = 0
  Truthy = {1, 2}
INVARIANT Conform
INVARIANT Done
CHECK_DEADLOCK FALSE
