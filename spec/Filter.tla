------------------------------- MODULE Filter -------------------------------
(***************************************************************************)
(* eyecite.helpers.filter_citations: de-duplicate by span, sort by full     *)
(* span, sweep (drop reference citations that overlap a neighbour), and     *)
(* (repaired code) sort the kept citations by span.                         *)
(* A citation is [s, e, fs, fe, kind]: span, full span, kind in             *)
(*   "ref" reference citation, "fc" full case citation, "oth" anything else *)
(* plus a unique tag `id` standing for object identity.                     *)
(***************************************************************************)
EXTENDS Integers, Sequences, FiniteSets, SequencesExt, TLC

CONSTANTS FinalSortBySpan,     \* TRUE: the repaired code sorts the kept citations by span
          DedupePrefersNonRef, \* TRUE: the repaired de-duplication
          SweepCovers          \* TRUE: the repaired sweep

Overlap(a1, b1, a2, b2) == (IF a1 > a2 THEN a1 ELSE a2) < (IF b1 < b2 THEN b1 ELSE b2)

(* de-duplication by span: first position of each span; the value is the last citation
   with that span, except that (DedupePrefersNonRef, repaired code) a reference citation
   never replaces a citation of another kind *)
Dedupe(l) ==
    LET SameSpan(a, b) == <<l[a].s, l[a].e>> = <<l[b].s, l[b].e>>
        firsts == SelectSeq([k \in DOMAIN l |-> k], LAMBDA k : \A j \in 1..(k-1) : ~SameSpan(j, k))
        (* does element j overwrite what the dict holds after elements 1..j-1 ? *)
        RECURSIVE Holder(_, _, _)
        Holder(k, j, cur) ==        \* cur = index currently stored for the span of k
            IF j > Len(l) THEN cur
            ELSE IF SameSpan(j, k) /\ ~(DedupePrefersNonRef /\ l[j].kind = "ref" /\ l[cur].kind # "ref")
                 THEN Holder(k, j + 1, j) ELSE Holder(k, j + 1, cur)
    IN  [x \in DOMAIN firsts |-> l[Holder(firsts[x], firsts[x] + 1, firsts[x])]]
(* sorted(key=...) is stable *)
StableSort(l, Less(_, _)) ==
    LET idx == SetToSortSeq(DOMAIN l, LAMBDA a, b : Less(l[a], l[b]) \/ (~Less(l[b], l[a]) /\ a < b))
    IN  [x \in DOMAIN idx |-> l[idx[x]]]
ByFull(a, b) == a.fs < b.fs \/ (a.fs = b.fs /\ a.fe < b.fe)
BySpan(a, b) == a.s < b.s \/ (a.s = b.s /\ a.e < b.e)

(* cov: furthest full-span end of the non-reference citations kept so far (SweepCovers,
   repaired code: a reference overlapping ANY earlier kept citation is dropped) *)
RECURSIVE Sweep(_, _, _, _)
Sweep(sorted, k, kept, cov) ==
    IF k > Len(sorted) THEN kept
    ELSE LET c == sorted[k]  last == kept[Len(kept)]
             ov == Overlap(c.fs, c.fe, last.fs, last.fe)
             cov2 == IF c.kind # "ref" /\ c.fe > cov THEN c.fe ELSE cov IN
         IF SweepCovers /\ c.kind = "ref" /\ ~ov /\ c.fs < cov THEN Sweep(sorted, k + 1, kept, cov2)
         ELSE IF ov
         THEN IF last.kind = "ref" THEN Sweep(sorted, k + 1, Append(Front(kept), c), cov2)
              ELSE IF c.kind = "ref" THEN Sweep(sorted, k + 1, kept, cov2)
              ELSE Sweep(sorted, k + 1, Append(kept, c), cov2)
         ELSE Sweep(sorted, k + 1, Append(kept, c), cov2)

FilterCitations(l) ==
    IF l = <<>> THEN l
    ELSE LET srt  == StableSort(Dedupe(l), ByFull)
             kept == Sweep(srt, 2, <<srt[1]>>, IF srt[1].kind = "ref" THEN 0 ELSE srt[1].fe)
         IN  IF FinalSortBySpan THEN StableSort(kept, BySpan) ELSE kept

(* ---- C03 as predicates of a result list ---- *)
InOrder(r)    == \A k \in 1..(Len(r) - 1) : r[k].s < r[k+1].s \/ (r[k].s = r[k+1].s /\ r[k].e <= r[k+1].e)
NoOverlap(r)  == \A a, b \in DOMAIN r : a # b =>
                    /\ <<r[a].s, r[a].e>> # <<r[b].s, r[b].e>>
                    /\ ~Overlap(r[a].s, r[a].e, r[b].s, r[b].e)
KeepsNonRefs(l, r) == \A k \in DOMAIN l : l[k].kind # "ref" => \E j \in DOMAIN r : r[j].id = l[k].id
NothingNew(l, r)   == \A j \in DOMAIN r : \E k \in DOMAIN l : l[k] = r[j]
=============================================================================
