SPECIFICATION Spec
CONSTANTS
  MaxLen = 4
  Truthy = {1, 2}
INVARIANT Partition
INVARIANT Exact
INVARIANT FirstUseOrder
INVARIANT RfcExact
INVARIANT LastExact
INVARIANT Emit
PROPERTY Grow
CHECK_DEADLOCK FALSE
