SPECIFICATION TSpec
CONSTANTS
  M = 150
  HugeFix = TRUE
  MaxPh = 0
  Alphabet = {}
INVARIANT Judge
INVARIANT Conform
INVARIANT Done
CHECK_DEADLOCK FALSE
