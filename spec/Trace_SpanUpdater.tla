-------------------------- MODULE Trace_SpanUpdater --------------------------
(* C10, third clause on the real SpanUpdater: for recorded (diff script, update
   values) of arbitrary string pairs and both diff engines:
   monitors  C10.inrange / C10.monotone / C04.noraise on the returned values;
   conformance: Upd(Ranges(script)) reproduces every returned value and the
   script is a valid edit script for the two lengths. *)
EXTENDS SpanUpdater, Json, IOUtils, TLC, Hits
Traces == JsonDeserialize(IOEnv.TRACE_FILE)
NT == Len(Traces)
VARIABLES tid, bucket
NB == 64
T(t) == Traces[t]
ClauseSeq == <<"C04.noraise", "C10.inrange", "C10.monotone", "C10.startend">>
Clauses == {ClauseSeq[ci] : ci \in DOMAIN ClauseSeq}
ASSUME PrintT(<<"CLAUSES", ToJson(ClauseSeq)>>)
Holds(cl, t) ==
  LET tr == T(t) IN
  IF tr.raised # "" THEN cl # "C04.noraise"
  ELSE CASE cl = "C04.noraise" -> TRUE
    [] cl = "C10.inrange"  -> \A x \in 1..(tr.la + 1) : /\ tr.right[x] \in 0..tr.lb
                                                        /\ tr.left[x] \in 0..tr.lb
    [] cl = "C10.monotone" -> \A x, y \in 1..(tr.la + 1) : x <= y =>
                                 (tr.right[x] <= tr.right[y] /\ tr.left[x] <= tr.left[y])
    [] cl = "C10.startend" -> \A x, y \in 1..(tr.la + 1) : x < y => tr.right[x] <= tr.left[y]
    [] OTHER -> FALSE
TInit == tid = 0 /\ bucket \in 0..(NB - 1)
TNext == tid = 0 /\ (\E t \in {x \in 1..NT : x % NB = bucket} : tid' = t) /\ UNCHANGED bucket
TSpec == TInit /\ [][TNext]_<<tid, bucket>>
Exercised(cl, t) ==
  LET tr == T(t) IN
  IF cl = "C04.noraise" THEN TRUE
  ELSE IF tr.raised # "" THEN FALSE
  ELSE \* a non-trivial translation: the two texts differ and there are at least two offsets
       tr.la >= 1 /\ (tr.la # tr.lb \/ \E x \in 1..(tr.la + 1) : tr.right[x] # x - 1 \/ tr.left[x] # x - 1)
Judge == tid # 0 => (/\ \A cl \in Clauses : Holds(cl, tid) \/ PrintT(<<"FAIL", tid, cl>>)
   /\ PrintT(<<"HIT", tid, Mask([ci \in DOMAIN ClauseSeq |-> Exercised(ClauseSeq[ci], tid)])>>))
Conform == (tid # 0 /\ T(tid).raised = "") =>
   LET tr == T(tid)  rs == Ranges(tr.script) IN
   ( /\ LenBefore(tr.script) = tr.la /\ LenAfter(tr.script) = tr.lb
     /\ \A x \in 1..(tr.la + 1) : /\ Upd(rs, x - 1, "right")[1] = tr.right[x]
                                  /\ Upd(rs, x - 1, "left")[1] = tr.left[x] )
   \/ PrintT(<<"DRIFT", tid>>)
Done == tid # 0 => PrintT(<<"DONE", tid>>)
=============================================================================
