SPECIFICATION Spec
CONSTANTS
  ClampIndex = TRUE
  EmptySpanClamp = FALSE
  SkipReclip = FALSE
  EmptySourceFix = FALSE
  Tol = 10
  MaxToks = 4
  MaxAnns = 2
  WfOnly = FALSE
  Modes <- AllModes
  TokSet <- ToksBasic
INVARIANT NoRaise
INVARIANT Additive
INVARIANT WellFormedOut
INVARIANT ExactEnclosure
INVARIANT InOrder
INVARIANT WrapKeepsAll
CHECK_DEADLOCK FALSE
