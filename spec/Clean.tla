------------------------------- MODULE Clean -------------------------------
(***************************************************************************)
(* eyecite.clean: the three regex cleaners over character CLASSES, the      *)
(* step fold clean_text, and the html cleaner over a flattened element tree.*)
(*                                                                          *)
(* Classes: "sp" space, "tab", "nl" newline-like (\n \r \f \v), "nbsp"      *)
(* Unicode spaces outside [ \t\n\r\f\v] that Python's \s matches, "us"      *)
(* underscore, "ch" anything else.                                          *)
(*   inline_whitespace  [ \t]+  -> " "                                      *)
(*   all_whitespace     \s+     -> " "                                      *)
(*   underscores        __+     -> ""                                       *)
(***************************************************************************)
EXTENDS Integers, Sequences, FiniteSets, SequencesExt, TLC

Classes  == {"sp", "tab", "nl", "nbsp", "us", "ch"}
InlineWs == {"sp", "tab"}
AllWs    == {"sp", "tab", "nl", "nbsp"}
StepNames == {"inline_whitespace", "all_whitespace", "underscores"}
(* clean_text also accepts custom callables as steps: two representatives (reverse the text, drop its
   first character); any other step value (an unknown name, a non-callable object) raises ValueError *)
CustomSteps == {"@rev", "@tail"}
ValidSteps == StepNames \cup CustomSteps

(* re.sub(CLASS+, " ", t): every maximal run of characters in S becomes one "sp" *)
RECURSIVE Collapse(_, _, _)
Collapse(t, S, x) ==
    IF x > Len(t) THEN <<>>
    ELSE IF t[x] \in S
         THEN (IF x > 1 /\ t[x-1] \in S THEN <<>> ELSE <<"sp">>) \o Collapse(t, S, x + 1)
         ELSE <<t[x]>> \o Collapse(t, S, x + 1)
(* re.sub("__+", "", t): every maximal run of >= 2 underscores disappears *)
RECURSIVE DropUs(_, _)
DropUs(t, x) ==
    IF x > Len(t) THEN <<>>
    ELSE IF t[x] = "us" /\ ((x > 1 /\ t[x-1] = "us") \/ (x < Len(t) /\ t[x+1] = "us"))
         THEN DropUs(t, x + 1)
         ELSE <<t[x]>> \o DropUs(t, x + 1)

Apply(step, t) == CASE step = "inline_whitespace" -> Collapse(t, InlineWs, 1)
                    [] step = "all_whitespace"    -> Collapse(t, AllWs, 1)
                    [] step = "underscores"       -> DropUs(t, 1)
                    [] step = "@rev"  -> [x \in DOMAIN t |-> t[Len(t) + 1 - x]]
                    [] step = "@tail" -> IF t = <<>> THEN t ELSE Tail(t)
                    [] OTHER -> t

(* clean_text: left fold; an unknown step name raises ValueError *)
RECURSIVE CleanText(_, _, _)
CleanText(t, steps, x) ==
    IF x > Len(steps) THEN [text |-> t, err |-> "none"]
    ELSE IF steps[x] \notin ValidSteps THEN [text |-> t, err |-> "ValueError"]
    ELSE CleanText(Apply(steps[x], t), steps, x + 1)

Keep(t, S) == SelectSeq(t, LAMBDA c : c \notin S)
HasRun(t, S, n) == \E x \in 1..(Len(t) - n + 1) : \A y \in x..(x + n - 1) : t[y] \in S

(* ---- C20 laws, as predicates of a text t ---- *)
Idempotent(t)  == \A s \in StepNames : Apply(s, Apply(s, t)) = Apply(s, t)
NoRunLeft(t)   == /\ ~HasRun(Apply("inline_whitespace", t), InlineWs, 2)
                  /\ \A x \in DOMAIN Apply("inline_whitespace", t) :
                        Apply("inline_whitespace", t)[x] # "tab"
                  /\ ~HasRun(Apply("all_whitespace", t), AllWs, 2)
                  /\ \A x \in DOMAIN Apply("all_whitespace", t) :
                        Apply("all_whitespace", t)[x] \notin {"tab", "nl", "nbsp"}
                  /\ ~HasRun(Apply("underscores", t), {"us"}, 2)
OthersKept(t)  == /\ Keep(Apply("inline_whitespace", t), InlineWs) = Keep(t, InlineWs)
                  /\ Keep(Apply("all_whitespace", t), AllWs) = Keep(t, AllWs)
                  /\ Keep(Apply("underscores", t), {"us"}) = Keep(t, {"us"})
Composes(t, s1, s2) ==
    LET a == CleanText(t, s1, 1) IN
    IF a.err # "none" THEN CleanText(t, s1 \o s2, 1).err = "ValueError"
    ELSE CleanText(t, s1 \o s2, 1) = CleanText(a.text, s2, 1)

-----------------------------------------------------------------------------
(* html cleaner.  A document is a properly nested token sequence:
     [k |-> "open", tag], [k |-> "close", tag], [k |-> "void", tag] (<link>),
     [k |-> "text", id, blank]   (blank: only XML whitespace)
   Visible = ids of the non-blank text tokens whose innermost open element is
   not style / link / head / script, in document order. *)
Hidden == {"style", "link", "head", "script"}
RECURSIVE Vis(_, _, _)
Vis(d, x, st) ==
    IF x > Len(d) THEN <<>>
    ELSE CASE d[x].k = "open"  -> Vis(d, x + 1, Append(st, d[x].tag))
           [] d[x].k = "close" -> Vis(d, x + 1, Front(st))
           [] d[x].k = "void"  -> Vis(d, x + 1, st)
           [] OTHER -> (IF ~d[x].blank /\ (st = <<>> \/ st[Len(st)] \notin Hidden)
                        THEN <<d[x].id>> ELSE <<>>) \o Vis(d, x + 1, st)
Visible(d) == Vis(d, 1, <<>>)
=============================================================================
