----------------------------- MODULE Trace_Clean -----------------------------
(* Recorded results of the real cleaners judged by TLC.
   Trace kinds:
   "text": cls (abstract classes), x (code points), per cleaner f: f1 = f(x), f2 = f(f(x));
           lists: [steps, whole = clean_text(x, steps), seq = steps applied one after
           another, werr / serr = "" or exception name]
   "html": doc (tokens), txt (code points per text id), out = html(rendered doc), raised *)
EXTENDS Clean, Json, IOUtils, Hits
Traces == JsonDeserialize(IOEnv.TRACE_FILE)
NT == Len(Traces)
VARIABLES tid, bucket
NB == 64
T(t) == Traces[t]

ClassOf(c) == CASE c = 32 -> "sp" [] c = 9 -> "tab" [] c \in {10, 11, 12, 13} -> "nl"
                [] c \in {160, 8195, 8232, 28, 133, 12288} -> "nbsp" [] c = 95 -> "us" [] OTHER -> "ch"
ClassSeq(x) == [y \in DOMAIN x |-> ClassOf(x[y])]
KeepCp(x, S) == SelectSeq(x, LAMBDA c : ClassOf(c) \notin S)
RunCp(x, S, n) == HasRun(ClassSeq(x), S, n)
F(tr, s) == CASE s = "inline_whitespace" -> tr.iw [] s = "all_whitespace" -> tr.aw [] OTHER -> tr.un
WsOf(s) == CASE s = "inline_whitespace" -> InlineWs [] s = "all_whitespace" -> AllWs [] OTHER -> {"us"}

RECURSIVE JoinSp(_, _, _)
JoinSp(txt, ids, x) == IF x > Len(ids) THEN <<>>
                       ELSE (IF x > 1 THEN <<32>> ELSE <<>>) \o txt[ids[x]] \o JoinSp(txt, ids, x + 1)

ClauseSeq == <<"C20.idempotent", "C20.norun", "C20.others", "C20.compose", "C20.valueerror", "C20.html">>
Clauses == {ClauseSeq[ci] : ci \in DOMAIN ClauseSeq}
ASSUME PrintT(<<"CLAUSES", ToJson(ClauseSeq)>>)
Holds(cl, t) ==
  LET tr == T(t) IN
  IF tr.kind = "text" THEN
    CASE cl = "C20.idempotent" -> \A s \in StepNames : F(tr, s).f2 = F(tr, s).f1
      [] cl = "C20.norun" -> /\ ~RunCp(tr.iw.f1, InlineWs, 2) /\ \A y \in DOMAIN tr.iw.f1 : tr.iw.f1[y] # 9
                             /\ ~RunCp(tr.aw.f1, AllWs, 2)
                             /\ \A y \in DOMAIN tr.aw.f1 : ClassOf(tr.aw.f1[y]) \notin {"tab", "nl", "nbsp"}
                             /\ ~RunCp(tr.un.f1, {"us"}, 2)
      [] cl = "C20.others" -> \A s \in StepNames : KeepCp(F(tr, s).f1, WsOf(s)) = KeepCp(tr.x, WsOf(s))
      [] cl = "C20.compose" -> \A y \in DOMAIN tr.lists :
                                  (tr.lists[y].werr = "" /\ tr.lists[y].serr = "") =>
                                      /\ tr.lists[y].whole = tr.lists[y].seq
                                      \* history: the same list applied AGAIN, immediately, to its own output (the call
                                      \* before it had the same steps and returned exactly this input)
                                      /\ tr.lists[y].whole2 = tr.lists[y].seq2
      [] cl = "C20.valueerror" -> \A y \in DOMAIN tr.lists :
                                  LET bogus == \E z \in DOMAIN tr.lists[y].steps : tr.lists[y].steps[z] \notin ValidSteps IN
                                  /\ (bogus <=> tr.lists[y].werr = "ValueError")
                                  /\ (~bogus => tr.lists[y].serr = "")
      [] OTHER -> TRUE
  ELSE
    CASE cl = "C20.html" -> tr.raised = "" /\ tr.out = JoinSp(tr.txt, Visible(tr.doc), 1)
      [] OTHER -> TRUE

TInit == tid = 0 /\ bucket \in 0..(NB - 1)
TNext == tid = 0 /\ (\E t \in {x \in 1..NT : x % NB = bucket} : tid' = t) /\ UNCHANGED bucket
TSpec == TInit /\ [][TNext]_<<tid, bucket>>
Exercised(cl, t) ==
  LET tr == T(t) IN
  IF tr.kind = "text" THEN
    CASE cl \in {"C20.idempotent", "C20.norun", "C20.others"} ->      \* some cleaner changes the text
              \E s \in StepNames : F(tr, s).f1 # tr.x
      [] cl = "C20.compose" -> \E y \in DOMAIN tr.lists : tr.lists[y].werr = "" /\ tr.lists[y].serr = "" /\ Len(tr.lists[y].steps) >= 2
                                                            /\ tr.lists[y].whole # tr.x
      [] cl = "C20.valueerror" -> \E y \in DOMAIN tr.lists : \E z \in DOMAIN tr.lists[y].steps : tr.lists[y].steps[z] \notin ValidSteps
      [] OTHER -> FALSE
  ELSE cl = "C20.html" /\ Len(tr.doc) >= 2 /\ Len(Visible(tr.doc)) < Cardinality(DOMAIN tr.txt)   \* some text node is invisible
Judge == tid # 0 => (/\ \A cl \in Clauses : Holds(cl, tid) \/ PrintT(<<"FAIL", tid, cl>>)
   /\ PrintT(<<"HIT", tid, Mask([ci \in DOMAIN ClauseSeq |-> Exercised(ClauseSeq[ci], tid)])>>))
(* conformance: the class image of each real cleaner output is the model's Apply *)
Conform == (tid # 0 /\ T(tid).kind = "text") =>
   LET tr == T(tid) IN
   ( /\ ClassSeq(tr.x) = tr.cls
     /\ \A s \in StepNames : ClassSeq(F(tr, s).f1) = Apply(s, tr.cls)
     \* clean_text on every recorded step list (names and custom callables) is the model's fold
     /\ \A y \in DOMAIN tr.lists :
           LET m == CleanText(tr.cls, tr.lists[y].steps, 1) IN
           IF m.err = "none" THEN tr.lists[y].werr = "" /\ ClassSeq(tr.lists[y].whole) = m.text
           ELSE tr.lists[y].werr = m.err )
   \/ PrintT(<<"DRIFT", tid>>)
Done == tid # 0 => PrintT(<<"DONE", tid>>)
=============================================================================
