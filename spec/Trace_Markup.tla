---------------------------- MODULE Trace_Markup ----------------------------
(* C19 on recorded executions: get_citations(markup_text=m, clean_steps=s) against
   get_citations(clean_text(m, s)).
   markup_nonref / plain_nonref: the non-reference citations of the two runs, each rendered as one
   canonical string (class, offsets, groups, metadata, year, editions);
   refs: every reference citation of either run with its span, and a witness: an earlier full case
   citation (index, end of its span) one of whose valid names occurs in the reference's text at
   offset off (TLC verifies the slice); n = length of the cleaned text, text = its code points. *)
EXTENDS Integers, Sequences, FiniteSets, Json, IOUtils, TLC, Hits
Traces == JsonDeserialize(IOEnv.TRACE_FILE)
NT == Len(Traces)
VARIABLES tid, bucket
NB == 64
T(t) == Traces[t]
ClauseSeq == <<"C04.noraise", "C19.sameplain", "C19.refoffsets", "C19.refafter", "C19.refname">>
Clauses == {ClauseSeq[ci] : ci \in DOMAIN ClauseSeq}
ASSUME PrintT(<<"CLAUSES", ToJson(ClauseSeq)>>)
Holds(cl, t) ==
  LET tr == T(t) IN
  IF tr.raised # "" THEN cl # "C04.noraise"
  ELSE CASE cl = "C19.sameplain"  -> tr.markup_nonref = tr.plain_nonref
    [] cl = "C19.refoffsets" -> \A k \in DOMAIN tr.refs : LET r == tr.refs[k] IN
                                   0 <= r.fs /\ r.fs <= r.s /\ r.s < r.e /\ r.e <= r.fe /\ r.fe <= tr.n
    [] cl = "C19.refafter"   -> \A k \in DOMAIN tr.refs : LET r == tr.refs[k] IN
                                   r.wit.valid /\ r.wit.full >= 1 /\ r.wit.full_e <= r.s
    [] cl = "C19.refname"    -> \A k \in DOMAIN tr.refs : LET r == tr.refs[k] IN
                                   /\ r.wit.valid
                                   /\ r.s <= r.wit.off /\ r.wit.off + Len(r.wit.name) <= r.e
                                   /\ SubSeq(tr.text, r.wit.off + 1, r.wit.off + Len(r.wit.name)) = r.wit.name
    [] OTHER -> TRUE
TInit == tid = 0 /\ bucket \in 0..(NB - 1)
TNext == tid = 0 /\ (\E t \in {x \in 1..NT : x % NB = bucket} : tid' = t) /\ UNCHANGED bucket
TSpec == TInit /\ [][TNext]_<<tid, bucket>>
Exercised(cl, t) ==
  LET tr == T(t) IN
  IF cl = "C04.noraise" THEN TRUE
  ELSE IF tr.raised # "" THEN FALSE
  ELSE CASE cl = "C19.sameplain" -> tr.markup_nonref # <<>> \/ tr.plain_nonref # <<>>
    [] cl \in {"C19.refoffsets", "C19.refafter", "C19.refname"} -> tr.refs # <<>>
    [] OTHER -> FALSE
Judge == tid # 0 => (/\ \A cl \in Clauses : Holds(cl, tid) \/ PrintT(<<"FAIL", tid, cl>>)
   /\ PrintT(<<"HIT", tid, Mask([ci \in DOMAIN ClauseSeq |-> Exercised(ClauseSeq[ci], tid)])>>))
Done == tid # 0 => PrintT(<<"DONE", tid>>)
=============================================================================
