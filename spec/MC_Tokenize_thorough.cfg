SPECIFICATION Spec
CONSTANTS
  N = 6
  MaxCands = 3
  RewindOnPop = TRUE
  SpaceSets <- AllSpaces
INVARIANT Partition
INVARIANT TextPieces
INVARIANT SelfIndex
INVARIANT Increasing
INVARIANT IndexExact
INVARIANT MachineIsRun
INVARIANT OrderIndependent
CHECK_DEADLOCK FALSE
