SPECIFICATION TSpec
CONSTANTS
  ClampIndex = TRUE
INVARIANT Judge
INVARIANT Conform
INVARIANT Done
CHECK_DEADLOCK FALSE
