---------------------------- MODULE SpanUpdater ----------------------------
(***************************************************************************)
(* eyecite.annotate.SpanUpdater: the fold over the diff script that builds  *)
(* `offsets`/`updaters`, and update(offset, bisect).                        *)
(* A script is a sequence of [op, n], op in {"=", "+", "-"}, n > 0.         *)
(* Python's list index -1 is made explicit: ClampIndex = FALSE is the       *)
(* original code (index -1 selects the LAST updater, an empty list raises), *)
(* ClampIndex = TRUE the repaired one (index clamped at 0; identity when    *)
(* there is no range at all).                                               *)
(***************************************************************************)
EXTENDS Integers, Sequences, FiniteSets

CONSTANT ClampIndex

RECURSIVE FoldScript(_, _, _)
(* acc = [rs: ranges so far, off: offset in text_before, d: delta] *)
FoldScript(sc, k, acc) ==
    IF k > Len(sc) THEN acc
    ELSE LET o == sc[k] IN
         FoldScript(sc, k + 1,
           CASE o.op = "=" -> [rs  |-> Append(acc.rs, [off |-> acc.off, kind |-> "shift", v |-> acc.d]),
                               off |-> acc.off + o.n, d |-> acc.d]
             [] o.op = "+" -> [rs |-> acc.rs, off |-> acc.off, d |-> acc.d + o.n]
             [] OTHER      -> [rs  |-> Append(acc.rs, [off |-> acc.off, kind |-> "repl", v |-> acc.off + acc.d]),
                               off |-> acc.off + o.n, d |-> acc.d - o.n])
Ranges(sc) == FoldScript(sc, 1, [rs |-> <<>>, off |-> 0, d |-> 0]).rs

LenBefore(sc) == LET F[k \in 0..Len(sc)] == IF k = 0 THEN 0
                       ELSE F[k-1] + (IF sc[k].op = "+" THEN 0 ELSE sc[k].n) IN F[Len(sc)]
LenAfter(sc)  == LET F[k \in 0..Len(sc)] == IF k = 0 THEN 0
                       ELSE F[k-1] + (IF sc[k].op = "-" THEN 0 ELSE sc[k].n) IN F[Len(sc)]

(* update(x, bisect): returns <<value, error>> *)
Upd(rs, x, side) ==
    LET cnt == Cardinality({j \in DOMAIN rs : IF side = "right" THEN rs[j].off <= x ELSE rs[j].off < x})
    IN  IF rs = <<>> THEN (IF ClampIndex THEN <<x, "none">> ELSE <<0, "IndexError">>)
        ELSE LET idx == IF cnt = 0 THEN (IF ClampIndex THEN 1 ELSE Len(rs)) ELSE cnt
             IN  <<IF rs[idx].kind = "shift" THEN x + rs[idx].v ELSE rs[idx].v, "none">>
=============================================================================
