------------------------------ MODULE MC_Markup ------------------------------
EXTENDS Markup
CONSTANT MaxToks
VARIABLE m
Toks == {[c |-> "t", n |-> 1], [c |-> "t", n |-> 3], [c |-> "nm", n |-> 2], [c |-> "pu", n |-> 1],
         [c |-> "oi", n |-> 3], [c |-> "ci", n |-> 4], [c |-> "ot", n |-> 3], [c |-> "ct", n |-> 4]}
Init == m = <<>>
Next == Len(m) < MaxToks /\ \E t \in Toks : m' = Append(m, t)
Spec == Init /\ [][Next]_m
(* C19: the reference's offsets are exactly those of the name in the cleaned text, inside it,
   and the full span covers it *)
RefExact == \A j \in DOMAIN m : RefAt(m, j) =>
               /\ RefSpan(m, j) = Expected(m, j)
               /\ 0 <= RefSpan(m, j)[1] /\ RefSpan(m, j)[2] <= PlainLen(m)
               /\ RefFullSpan(m, j)[1] <= RefSpan(m, j)[1] /\ RefSpan(m, j)[2] <= RefFullSpan(m, j)[2]
               /\ RefFullSpan(m, j)[2] <= PlainLen(m)
=============================================================================
