SPECIFICATION TSpec
CONSTANTS
  N = 0
  RewindOnPop = TRUE
INVARIANT Judge
INVARIANT Conform
INVARIANT Done
CHECK_DEADLOCK FALSE
