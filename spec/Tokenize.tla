------------------------------ MODULE Tokenize ------------------------------
(***************************************************************************)
(* eyecite.tokenizers.Tokenizer.tokenize as a state machine.               *)
(*                                                                          *)
(* Text is abstracted to its length N and the set sp of positions holding   *)
(* a single space " " (append_text splits only on that character).          *)
(* A candidate is what extract_tokens yields: [s, e, kind, v]               *)
(*   s, e   character offsets of group 1 of the extractor match             *)
(*   kind   "nom"  citation token of a nominative reporter                  *)
(*          "cite" any other citation token                                 *)
(*          "oth"  id / supra / stop word / section / paragraph token       *)
(*   v      equality class of (groups, short flag): two candidates with the *)
(*          same span merge iff kind-class and v agree                      *)
(* The sequence `cands` is in generator order (extractor list order), which *)
(* the stable sort keeps among equal (s, -e) keys.                          *)
(*                                                                          *)
(* One action per loop iteration; branches named after the code.            *)
(***************************************************************************)
EXTENDS Integers, Sequences, FiniteSets, SequencesExt, FiniteSetsExt, TLC

CONSTANTS N,            \* text length
          RewindOnPop   \* TRUE: offset := popped token's start (the repaired code)

NoTok == [s |-> -1, e |-> -1, kind |-> "none", v |-> 0]
IsCite(t) == t.kind \in {"nom", "cite"}

VARIABLES sp,      \* positions of " " in the text
          cands,   \* candidate sequence in generator order
          pc,      \* "build" | "loop" | "done"
          order,   \* candidates sorted by (s, -e), stable
          i,       \* next index in order
          offset, last, words, ctoks
vars == <<sp, cands, pc, order, i, offset, last, words, ctoks>>

-----------------------------------------------------------------------------
(* sorted(key = (start, -end)), stable: ties keep generator order *)
Before(a, b) == \/ cands[a].s < cands[b].s
                \/ (cands[a].s = cands[b].s /\ cands[a].e > cands[b].e)
                \/ (cands[a].s = cands[b].s /\ cands[a].e = cands[b].e /\ a < b)
SortIdx(cs) == SetToSortSeq(DOMAIN cs, LAMBDA a, b :
                   \/ cs[a].s < cs[b].s
                   \/ (cs[a].s = cs[b].s /\ cs[a].e > cs[b].e)
                   \/ (cs[a].s = cs[b].s /\ cs[a].e = cs[b].e /\ a < b))
Sorted(cs) == [k \in 1..Len(cs) |-> cs[SortIdx(cs)[k]]]

(* Tokenizer.append_text(text[a:b]): every " " is a word of its own, every
   maximal space-free run is a word *)
Pieces(spaces, a, b) ==
    LET starts == {p \in a..(b-1) : p \in spaces \/ p = a \/ (p-1) \in spaces}
        EndOf(p) == IF p \in spaces THEN p + 1
                    ELSE Min({q \in (p+1)..b : q = b \/ q \in spaces})
        S == SetToSortSeq(starts, <)
    IN  [k \in 1..Len(S) |-> [s |-> S[k], e |-> EndOf(S[k]), special |-> FALSE]]

(* Token.merge / CitationToken.merge *)
Merges(l, t) == /\ l # NoTok /\ l.s = t.s /\ l.e = t.e
                /\ IsCite(l) = IsCite(t) /\ l.v = t.v

Word(t) == [s |-> t.s, e |-> t.e, special |-> TRUE]

(* one loop iteration as a function of the loop state *)
Emit(st, spaces, t) ==
    LET pre == IF st.offset < t.s THEN Pieces(spaces, st.offset, t.s) ELSE <<>>
        w   == st.words \o pre
    IN  [offset |-> t.e, last |-> t, words |-> Append(w, Word(t)),
         ctoks |-> Append(st.ctoks, Len(w) + 1), br |-> "emit"]
Iter(st, spaces, t) ==
    IF Merges(st.last, t) THEN [st EXCEPT !.br = "merge"]
    ELSE IF st.offset > t.s
         THEN IF st.last # NoTok /\ IsCite(t) /\ st.last.kind = "nom"
              THEN LET popped == [st EXCEPT !.words = Front(st.words), !.ctoks = Front(st.ctoks),
                                            !.offset = IF RewindOnPop THEN st.last.s ELSE st.offset]
                   IN [Emit(popped, spaces, t) EXCEPT !.br = "pop"]
              ELSE [st EXCEPT !.br = "skip"]
         ELSE Emit(st, spaces, t)
Finish(st, spaces, n) ==
    IF st.offset < n THEN st.words \o Pieces(spaces, st.offset, n) ELSE st.words

St0 == [offset |-> 0, last |-> NoTok, words |-> <<>>, ctoks |-> <<>>, br |-> "init"]

(* the whole call as a function (used as oracle for order independence and by
   the trace specification) *)
RECURSIVE Fold(_, _, _, _)
Fold(st, spaces, ord, k) == IF k > Len(ord) THEN st ELSE Fold(Iter(st, spaces, ord[k]), spaces, ord, k + 1)
Run(spaces, cs, n) == LET st == Fold(St0, spaces, Sorted(cs), 1)
                      IN  [words |-> Finish(st, spaces, n), ctoks |-> st.ctoks]

-----------------------------------------------------------------------------
StartLoop == /\ pc = "build"
             /\ pc' = "loop" /\ order' = Sorted(cands) /\ i' = 1
             /\ UNCHANGED <<sp, cands, offset, last, words, ctoks>>
LoopStep == /\ pc = "loop" /\ i <= Len(order)
            /\ LET st == Iter([offset |-> offset, last |-> last, words |-> words,
                               ctoks |-> ctoks, br |-> ""], sp, order[i]) IN
               /\ offset' = st.offset /\ last' = st.last
               /\ words' = st.words /\ ctoks' = st.ctoks
            /\ i' = i + 1 /\ UNCHANGED <<sp, cands, pc, order>>
TailStep == /\ pc = "loop" /\ i > Len(order)
            /\ words' = Finish([offset |-> offset, words |-> words], sp, N)
            /\ pc' = "done" /\ UNCHANGED <<sp, cands, order, i, offset, last, ctoks>>

-----------------------------------------------------------------------------
(* C12 *)
Partition  == pc = "done" =>
                 /\ (N > 0 => (words # <<>> /\ words[1].s = 0 /\ words[Len(words)].e = N))
                 /\ \A k \in 1..(Len(words) - 1) : words[k].e = words[k+1].s
                 /\ \A k \in DOMAIN words : words[k].s < words[k].e
TextPieces == pc = "done" => \A k \in DOMAIN words : ~words[k].special =>
                 \/ (words[k].e = words[k].s + 1 /\ words[k].s \in sp)
                 \/ \A p \in words[k].s..(words[k].e - 1) : p \notin sp
SelfIndex  == \A k \in DOMAIN ctoks : ctoks[k] \in DOMAIN words /\ words[ctoks[k]].special
Increasing == \A k \in 1..(Len(ctoks) - 1) :
                 /\ ctoks[k] < ctoks[k+1]
                 /\ words[ctoks[k]].e <= words[ctoks[k+1]].s
IndexExact == pc = "done" =>
                 {ctoks[k] : k \in DOMAIN ctoks} = {j \in DOMAIN words : words[j].special}
(* the machine and the functional definition agree *)
MachineIsRun == pc = "done" => [words |-> words, ctoks |-> ctoks] = Run(sp, cands, N)
=============================================================================
