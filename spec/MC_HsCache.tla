----------------------------- MODULE MC_HsCache -----------------------------
EXTENDS HsCache, Json
(* behaviours for replay: the sequence of environment events of every state that ends a construction *)
Emit == (pc = "ready" /\ hist # <<>>) => PrintT(<<"B", ToJson(hist)>>)
Bound == Len(hist) <= 7
=============================================================================
