--------------------------- MODULE ResolveGeneric ---------------------------
(***************************************************************************)
(* resolve_citations with USER-SUPPLIED resolver callbacks (the documented  *)
(* extension point: resolve_full_citation, resolve_shortcase_citation,      *)
(* resolve_supra_citation, resolve_reference_citation, resolve_id_citation).*)
(* Resolve.tla specifies the default resolvers; this module specifies the   *)
(* driver loop for ANY resolvers: what each callback is handed, and what    *)
(* the loop does with whatever it returns.                                  *)
(*                                                                          *)
(* One action per loop iteration.  A callback's return value is the         *)
(* environment's choice (outs[p]); the loop                                 *)
(*   - hands a full-citation resolver the citation only, and records        *)
(*     (citation, resolution) in resolved_full_cites even when the          *)
(*     resolution is None,                                                  *)
(*   - hands short / supra / reference resolvers the list accumulated so    *)
(*     far (earlier full citations only, input order),                      *)
(*   - hands the id. resolver the PREVIOUS iteration's return value (also   *)
(*     when that was None or falsy, also when the previous citation was     *)
(*     unknown),                                                            *)
(*   - calls nothing for an unknown citation,                               *)
(*   - appends the citation to resolutions[resolution] iff the resolution   *)
(*     is TRUTHY (`if resolution:`): a falsy resource such as 0 or "" is    *)
(*     silently treated like None -- a hazard of the API that the model     *)
(*     states explicitly (Falsy).                                           *)
(***************************************************************************)
EXTENDS Integers, Sequences, FiniteSets, TLC

CONSTANTS MaxLen,       \* bound on the input length (model checking only)
          Truthy        \* the truthy resources a callback may return (small integers >= 1)

None  == -1
Falsy == 0              \* a resource object whose truth value is False
Outcomes == Truthy \cup {None, Falsy}
Kinds == {"full", "short", "supra", "ref", "id", "unknown"}
ListKinds == {"short", "supra", "ref"}

VARIABLES kinds, outs,   \* the input: citation kind and the callback's return value per position
          phase,         \* "build" | "run" | "done"
          pos,           \* next position
          groups,        \* resolutions: sequence of [key, m] in dict insertion order
          rfc,           \* resolved_full_cites: sequence of <<position, resolution>>
          last,          \* last_resolution
          arg            \* what the callback of the last iteration was handed (observation)
vars == <<kinds, outs, phase, pos, groups, rfc, last, arg>>

NoArg == [n |-> -1, list |-> <<>>, last |-> None]
Init == /\ kinds = <<>> /\ outs = <<>> /\ phase = "build" /\ pos = 1
        /\ groups = <<>> /\ rfc = <<>> /\ last = None /\ arg = NoArg

Add == /\ phase = "build" /\ Len(kinds) < MaxLen
       /\ \E k \in Kinds, o \in Outcomes :
            /\ (k = "unknown" => o = None)
            /\ kinds' = Append(kinds, k) /\ outs' = Append(outs, o)
       /\ UNCHANGED <<phase, pos, groups, rfc, last, arg>>
Start == /\ phase = "build" /\ phase' = "run" /\ UNCHANGED <<kinds, outs, pos, groups, rfc, last, arg>>

IsTruthy(r) == r # None /\ r # Falsy
Record(gs, r, p) ==
    IF \E j \in DOMAIN gs : gs[j].key = r
    THEN [j \in DOMAIN gs |-> IF gs[j].key = r THEN [gs[j] EXCEPT !.m = Append(@, p)] ELSE gs[j]]
    ELSE Append(gs, [key |-> r, m |-> <<p>>])

(* one loop iteration on citation kind k with callback result o *)
StepWith(k, o) ==
    LET resolution == IF k = "unknown" THEN None ELSE o IN
    /\ arg' = CASE k = "full"      -> [n |-> 0, list |-> <<>>, last |-> None]
                [] k \in ListKinds -> [n |-> Len(rfc), list |-> rfc, last |-> None]
                [] k = "id"        -> [n |-> -1, list |-> <<>>, last |-> last]
                [] OTHER           -> NoArg
    /\ rfc' = IF k = "full" THEN Append(rfc, <<pos, o>>) ELSE rfc
    /\ last' = resolution
    /\ groups' = IF IsTruthy(resolution) THEN Record(groups, resolution, pos) ELSE groups
    /\ pos' = pos + 1
Step == /\ phase = "run" /\ pos <= Len(kinds)
        /\ StepWith(kinds[pos], outs[pos])
        /\ UNCHANGED <<kinds, outs, phase>>
Finish == /\ phase = "run" /\ pos = Len(kinds) + 1 /\ phase' = "done"
          /\ UNCHANGED <<kinds, outs, pos, groups, rfc, last, arg>>
Next == Add \/ Start \/ Step \/ Finish
Spec == Init /\ [][Next]_vars

-----------------------------------------------------------------------------
(* laws of the loop, for any callbacks *)
Members(gs) == UNION {{gs[j].m[x] : x \in DOMAIN gs[j].m} : j \in DOMAIN gs}
Partition ==
    /\ \A j \in DOMAIN groups : /\ groups[j].m # <<>>
                                /\ \A x \in 1..(Len(groups[j].m) - 1) : groups[j].m[x] < groups[j].m[x+1]
                                /\ IsTruthy(groups[j].key)
    /\ \A j1, j2 \in DOMAIN groups : j1 # j2 =>
          /\ groups[j1].key # groups[j2].key
          /\ {groups[j1].m[x] : x \in DOMAIN groups[j1].m} \cap {groups[j2].m[x] : x \in DOMAIN groups[j2].m} = {}
(* exactly the citations whose callback returned something truthy are recorded, under that value *)
Exact == \A p \in 1..(pos - 1) :
            LET want == kinds[p] # "unknown" /\ IsTruthy(outs[p]) IN
            /\ (p \in Members(groups)) = want
            /\ want => \E j \in DOMAIN groups : groups[j].key = outs[p] /\ \E x \in DOMAIN groups[j].m : groups[j].m[x] = p
(* dict insertion order: groups are ordered by the first position recorded under them *)
FirstUseOrder == \A j \in 1..(Len(groups) - 1) : groups[j].m[1] < groups[j+1].m[1]
(* the accumulated list holds every earlier full citation, in order, with whatever its resolver returned *)
RfcExact == rfc = SelectSeq([p \in 1..(pos - 1) |-> <<p, outs[p]>>], LAMBDA e : kinds[e[1]] = "full")
(* the id. resolver sees the previous iteration's value *)
LastExact == last = (IF pos = 1 THEN None ELSE IF kinds[pos-1] = "unknown" THEN None ELSE outs[pos-1])
(* online: an iteration never changes what earlier iterations recorded *)
Grow == [][phase = "run" /\ phase' = "run" =>
             /\ Len(groups') >= Len(groups)
             /\ \A j \in DOMAIN groups : groups'[j].key = groups[j].key
                                         /\ SubSeq(groups'[j].m, 1, Len(groups[j].m)) = groups[j].m]_vars
=============================================================================
