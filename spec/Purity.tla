------------------------------- MODULE Purity -------------------------------
(***************************************************************************)
(* C15: extraction as seen from its environment.                            *)
(*                                                                          *)
(* A process has a hash seed (modelled as the iteration order `perm` of a   *)
(* set of extractors), a shared default tokenizer whose only mutable state  *)
(* is the lazily compiled-pattern cache, and up to two threads that call    *)
(* get_citations.  A call is four steps, each a pre-emption point:          *)
(*   Select   get_extractors(text): the extractors whose literal occurs     *)
(*   Compile  compiled_regex of each selected extractor (cache: shared)     *)
(*   Match    run the patterns, collect candidates in iteration order       *)
(*   Finish   tokenize + extract: the result, a function of the candidate   *)
(*            SEQUENCE (ties between equal spans keep generator order)      *)
(* Everything except `cache` is local to the call, which is why calls do    *)
(* not interfere.  SetOrder = TRUE models the original code, where the      *)
(* selected extractors were iterated as a set (hash order); FALSE the       *)
(* repaired code (order of the extractor list).  SharedSel = TRUE models a  *)
(* tokenizer that keeps the working set on the instance (a realistic        *)
(* regression), to show the model can tell the difference.                  *)
(*                                                                          *)
(* Abstractly an extractor e matches text t iff e \in Match[t]; two         *)
(* extractors in Tie[t] match the same span without merging, so the one     *)
(* that comes first wins: Result(t, order) = the set of winning extractors. *)
(***************************************************************************)
EXTENDS Integers, Sequences, FiniteSets, SequencesExt, TLC

CONSTANTS Threads, Texts, Extractors,   \* Extractors: 1..N, list order = numeric order
          MatchOf,      \* [Texts -> SUBSET Extractors]: extractors whose pattern matches
          TieOf,        \* [Texts -> SUBSET Extractors]: of those, a group matching ONE span without merging
          MergeOf,      \* [Texts -> SUBSET Extractors]: of those, a group matching one span with the same groups:
                        \* their tokens MERGE, the merged token lists the candidate editions of all of them
          SetOrder, SharedSel, MaxCalls,
          EdSetOrder    \* TRUE: the original CitationToken.merge (editions de-duplicated through set(): the order of
                        \* the merged candidate editions is hash order); FALSE: the repaired code (first-seen order)

VARIABLES perm,     \* hash seed: a permutation of Extractors (iteration order of a set)
          cache,    \* shared: extractors whose pattern has been compiled
          shsel,    \* shared working set (only used when SharedSel)
          pc, txt, sel, cands,   \* per thread
          done,     \* completed calls: sequence of [t, r]
          ncalls
vars == <<perm, cache, shsel, pc, txt, sel, cands, done, ncalls>>

Perms == {p \in [1..Cardinality(Extractors) -> Extractors] : \A a, b \in DOMAIN p : a # b => p[a] # p[b]}
ListOrder == SetToSortSeq(Extractors, <)
OrderOf(S) == SelectSeq(IF SetOrder THEN perm ELSE ListOrder, LAMBDA e : e \in S)

(* the winners: every matching extractor outside the tie group, and the FIRST of the tie group;
   and the candidate editions of the merged token, a SEQUENCE (the attribute is a tuple) *)
Result(t, order) ==
    LET m == SelectSeq(order, LAMBDA e : e \in MatchOf[t])
        ties == SelectSeq(m, LAMBDA e : e \in TieOf[t])
        mg == SelectSeq(m, LAMBDA e : e \in MergeOf[t])
    IN  [win |-> {m[k] : k \in DOMAIN m} \ (IF ties = <<>> THEN {} ELSE {ties[k] : k \in 2..Len(ties)}),
         eds |-> IF EdSetOrder THEN SelectSeq(perm, LAMBDA e : e \in {mg[k] : k \in DOMAIN mg}) ELSE mg]
(* the specification of the function: list order, merged editions in list order *)
F(t) == [win |-> Result(t, ListOrder).win, eds |-> SelectSeq(ListOrder, LAMBDA e : e \in MatchOf[t] \cap MergeOf[t])]

Init == /\ perm \in Perms /\ cache = {} /\ shsel = <<>>
        /\ pc = [th \in Threads |-> "idle"] /\ txt = [th \in Threads |-> CHOOSE t \in Texts : TRUE]
        /\ sel = [th \in Threads |-> <<>>] /\ cands = [th \in Threads |-> <<>>]
        /\ done = <<>> /\ ncalls = 0

Call(th) == /\ pc[th] = "idle" /\ ncalls < MaxCalls
            /\ \E t \in Texts : txt' = [txt EXCEPT ![th] = t]
            /\ pc' = [pc EXCEPT ![th] = "select"] /\ ncalls' = ncalls + 1
            /\ UNCHANGED <<perm, cache, shsel, sel, cands, done>>
Select(th) == /\ pc[th] = "select"
              /\ LET s == OrderOf(MatchOf[txt[th]]) IN      \* the filter is lossless (C13)
                 IF SharedSel THEN shsel' = s /\ UNCHANGED sel
                 ELSE sel' = [sel EXCEPT ![th] = s] /\ UNCHANGED shsel
              /\ pc' = [pc EXCEPT ![th] = "compile"]
              /\ UNCHANGED <<perm, cache, txt, cands, done, ncalls>>
Mine(th) == IF SharedSel THEN shsel ELSE sel[th]
Compile(th) == /\ pc[th] = "compile"
               /\ cache' = cache \cup {Mine(th)[k] : k \in DOMAIN Mine(th)}
               /\ pc' = [pc EXCEPT ![th] = "match"]
               /\ UNCHANGED <<perm, shsel, txt, sel, cands, done, ncalls>>
Match(th) == /\ pc[th] = "match"
             /\ cands' = [cands EXCEPT ![th] = SelectSeq(Mine(th), LAMBDA e : e \in MatchOf[txt[th]])]
             /\ pc' = [pc EXCEPT ![th] = "finish"]
             /\ UNCHANGED <<perm, cache, shsel, txt, sel, done, ncalls>>
Finish(th) == /\ pc[th] = "finish"
              /\ done' = Append(done, [t |-> txt[th], r |-> Result(txt[th], cands[th])])
              /\ pc' = [pc EXCEPT ![th] = "idle"]
              /\ UNCHANGED <<perm, cache, shsel, txt, sel, cands, ncalls>>
Next == \E th \in Threads : Call(th) \/ Select(th) \/ Compile(th) \/ Match(th) \/ Finish(th)
Spec == Init /\ [][Next]_vars

(* C15: every completed call returned F(text), whatever the seed, the schedule and the history *)
Pure == \A k \in DOMAIN done : done[k].r = F(done[k].t)
(* results already returned never change *)
Frozen == [][\A k \in DOMAIN done : done'[k] = done[k]]_vars
=============================================================================
