SPECIFICATION TSpec
CONSTANTS
  ClampIndex = TRUE
  EmptySpanClamp = TRUE
  SkipReclip = TRUE
  Tol = 10
INVARIANT Judge
INVARIANT Conform
INVARIANT Done
CHECK_DEADLOCK FALSE
