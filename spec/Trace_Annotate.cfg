SPECIFICATION TSpec
CONSTANTS
  ClampIndex = TRUE
  EmptySpanClamp = TRUE
  SkipReclip = TRUE
  EmptySourceFix = TRUE
  Tol = 10
INVARIANT Judge
INVARIANT Conform
INVARIANT Done
CHECK_DEADLOCK FALSE
