SPECIFICATION Spec
CONSTANTS
  ClampIndex = TRUE
  EmptySpanClamp = TRUE
  SkipReclip = TRUE
  EmptySourceFix = TRUE
  Tol = 10
  MaxToks = 5
  MaxAnns = 1
  WfOnly = FALSE
  Modes <- AllModes
  TokSet <- ToksDelTag
INVARIANT NoRaise
INVARIANT Additive
INVARIANT InOrder
INVARIANT EmitDone
CHECK_DEADLOCK FALSE
