--------------------------- MODULE Trace_Tokenize ---------------------------
(***************************************************************************)
(* Recorded results of the real tokenizers judged by TLC.                   *)
(*  - monitor clauses C12.* : the property text, on the returned values     *)
(*  - conformance           : Tokenize.tla's Run() on the recorded candidates*)
(*    must reproduce the returned token stream (DRIFT otherwise)            *)
(* Trace record: N, sp, cands (generator order), text (code points),        *)
(*   words: [t (code points), special, s, e (token offsets for special      *)
(*   tokens), cs, ce (cumulative offsets)], ctoks (1-based indices),         *)
(*   ctok_same (index list entries are the very objects in the token list),  *)
(*   raised                                                                  *)
(***************************************************************************)
EXTENDS Tokenize, Json, IOUtils, Hits

Traces == JsonDeserialize(IOEnv.TRACE_FILE)
NT == Len(Traces)
VARIABLES tid, bucket
tvars == <<vars, tid, bucket>>
NB == 64

T(t) == Traces[t]
RECURSIVE Flat(_, _)
Flat(ws, k) == IF k > Len(ws) THEN <<>> ELSE ws[k].t \o Flat(ws, k + 1)
Specials(ws) == {k \in DOMAIN ws : ws[k].special}

ClauseSeq == <<"C04.noraise", "C12.concat", "C12.selfindex", "C12.order", "C12.index">>
Clauses == {ClauseSeq[ci] : ci \in DOMAIN ClauseSeq}
ASSUME PrintT(<<"CLAUSES", ToJson(ClauseSeq)>>)
Holds(cl, t) ==
  LET tr == T(t)  ws == tr.words  txt == tr.text IN
  IF tr.raised # "" THEN cl # "C04.noraise"
  ELSE CASE cl = "C04.noraise"   -> TRUE
    [] cl = "C12.concat"    -> Flat(ws, 1) = txt
    [] cl = "C12.selfindex" -> \A k \in Specials(ws) :
                                  /\ 0 <= ws[k].s /\ ws[k].s <= ws[k].e /\ ws[k].e <= Len(txt)
                                  /\ SubSeq(txt, ws[k].s + 1, ws[k].e) = ws[k].t
    [] cl = "C12.order"     -> \A a, b \in Specials(ws) : a < b => ws[a].e <= ws[b].s
    [] cl = "C12.index"     -> /\ tr.ctok_same
                               /\ \A k \in 1..(Len(tr.ctoks) - 1) : tr.ctoks[k] < tr.ctoks[k+1]
                               /\ {tr.ctoks[k] : k \in DOMAIN tr.ctoks} = Specials(ws)
    [] OTHER -> FALSE

ToSetOf(s) == {s[k] : k \in DOMAIN s}
ObsWords(t) == [k \in DOMAIN T(t).words |->
                  [s |-> T(t).words[k].cs, e |-> T(t).words[k].ce, special |-> T(t).words[k].special]]
ModelRun(t) == Run(ToSetOf(T(t).sp), T(t).cands, Len(T(t).text))

TInit == /\ tid = 0 /\ bucket \in 0..(NB - 1)
         /\ sp = {} /\ cands = <<>> /\ pc = "trace" /\ order = <<>> /\ i = 0
         /\ offset = 0 /\ last = NoTok /\ words = <<>> /\ ctoks = <<>>
TNext == /\ tid = 0 /\ \E t \in {x \in 1..NT : x % NB = bucket} : tid' = t
         /\ UNCHANGED <<vars, bucket>>
TSpec == TInit /\ [][TNext]_tvars

Exercised(cl, t) ==
  LET tr == T(t)  ws == tr.words IN
  IF cl = "C04.noraise" THEN TRUE
  ELSE IF tr.raised # "" THEN FALSE
  ELSE CASE cl = "C12.concat" -> Len(ws) >= 2
    [] cl \in {"C12.selfindex", "C12.index"} -> Specials(ws) # {}
    [] cl = "C12.order" -> Cardinality(Specials(ws)) >= 2
    [] OTHER -> FALSE
Judge == tid # 0 => (/\ \A cl \in Clauses : Holds(cl, tid) \/ PrintT(<<"FAIL", tid, cl>>)
   /\ PrintT(<<"HIT", tid, Mask([ci \in DOMAIN ClauseSeq |-> Exercised(ClauseSeq[ci], tid)])>>))
Conform == (tid # 0 /\ T(tid).raised = "") =>
             LET m == ModelRun(tid) IN
             (m.words = ObsWords(tid) /\ m.ctoks = T(tid).ctoks) \/ PrintT(<<"DRIFT", tid>>)
Done == tid # 0 => PrintT(<<"DONE", tid>>)
=============================================================================
