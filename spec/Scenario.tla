------------------------------ MODULE Scenario ------------------------------
(***************************************************************************)
(* C05: documents made of distinct cases, each first cited in full and then *)
(* referred to by short form, supra or id.  A scenario is built sentence by *)
(* sentence; every reference carries the case it was WRITTEN to refer to    *)
(* and whether it is unambiguous in the sense of the property:              *)
(*   short  unique (reporter, volume) among the cases cited so far, or a    *)
(*          party-name antecedent (names are pairwise non-overlapping)      *)
(*   supra  always (unique party name)                                      *)
(*   id.    directly after a resolved citation, pin cite within the opinion *)
(* and whether it must be left out (impossible id. pin cite, or id. after   *)
(* an unresolved citation).  The resolution itself is Resolve.tla; this     *)
(* module checks that the MODEL groups every unambiguous reference with its *)
(* intended case, and emits the scenarios for replay on running text.       *)
(***************************************************************************)
EXTENDS Resolve, SequencesExt, Json

CONSTANTS Cases,      \* sequence of [rv, pg, pl, df]: the distinct cases (names pairwise disjoint)
          MaxItems

VARIABLES items,      \* the document so far: sequence of [kind, case, ante, pin, unamb, out]
          cited,      \* cases already cited in full
          lastcase,   \* the case the previous citation resolved to (0 = unresolved / none)
          ok          \* every labelled reference so far met its expectation in the model
svars == <<vars, items, cited, lastcase, ok>>

Cite(k, rv, pg, pl, df, ag, pin) ==
  [k |-> k, rv |-> rv, pg |-> pg, pl |-> pl, df |-> df, ag |-> ag, nm |-> {}, pin |-> pin, id |-> ""]
ResOfCase(i) == <<"fc", Cases[i].rv, Cases[i].pg>>
UniqueRV(i) == \A j \in cited : j # i => Cases[j].rv # Cases[i].rv

SInit == Init /\ items = <<>> /\ cited = {} /\ lastcase = 0 /\ ok = TRUE

AddFull == \E i \in DOMAIN Cases :
    /\ Step(Cite("fc", Cases[i].rv, Cases[i].pg, Cases[i].pl, Cases[i].df, NoName, NoPin))
    /\ items' = Append(items, [kind |-> "full", case |-> i, ante |-> FALSE, pin |-> NoPin, unamb |-> TRUE, out |-> FALSE])
    /\ cited' = cited \cup {i} /\ lastcase' = i
    /\ ok' = (ok /\ joined' = ResOfCase(i))
AddShort == \E i \in cited, ante \in BOOLEAN :
    LET un == UniqueRV(i) \/ ante IN
    /\ Step(Cite("sc", Cases[i].rv, NoGroup, {}, {}, IF ante THEN CHOOSE a \in Cases[i].df : TRUE ELSE "zz", NoPin))
    /\ items' = Append(items, [kind |-> "short", case |-> i, ante |-> ante, pin |-> NoPin, unamb |-> un, out |-> FALSE])
    /\ lastcase' = IF joined' = NoRes THEN 0 ELSE i
    /\ ok' = (ok /\ (un => joined' = ResOfCase(i)))
    /\ UNCHANGED cited
AddSupra == \E i \in cited :
    /\ Step(Cite("su", "", NoGroup, {}, {}, CHOOSE a \in Cases[i].df : TRUE, NoPin))
    /\ items' = Append(items, [kind |-> "supra", case |-> i, ante |-> TRUE, pin |-> NoPin, unamb |-> TRUE, out |-> FALSE])
    /\ lastcase' = i /\ ok' = (ok /\ joined' = ResOfCase(i)) /\ UNCHANGED cited
(* id.: pin classes relative to the first page of the antecedent *)
AddId == \E pc \in {"none", "in", "inrange", "innote", "before", "beyond"} :    \* inrange: "at 103-05", innote: "at 103, n. 3"
    LET i == lastcase
        pg == IF i = 0 THEN 10 ELSE Cases[i].pg
        pin == CASE pc = "none" -> NoPin [] pc \in {"in", "inrange", "innote"} -> pg + 3
                 [] pc = "before" -> pg - 1 [] OTHER -> pg + M + 1
        good == i # 0 /\ pc \in {"none", "in", "inrange", "innote"}
    IN
    /\ Step(Cite("id", "", NoGroup, {}, {}, NoName, pin))
    /\ items' = Append(items, [kind |-> "id", case |-> i, ante |-> (pc = "inrange"), pin |-> IF pc = "innote" THEN 0 - pin ELSE pin,
                                unamb |-> good, out |-> ~good])      \* (ante / the sign of pin carry the written form of the pin cite)
    /\ lastcase' = IF good THEN i ELSE 0
    /\ ok' = (ok /\ (good => joined' = ResOfCase(i)) /\ (~good => joined' = NoRes))
    /\ UNCHANGED cited
(* a sentence without a citation changes nothing; a section reference is an unknown citation *)
AddSection ==
    /\ Step(Cite("un", "", NoGroup, {}, {}, NoName, NoPin))
    /\ items' = Append(items, [kind |-> "section", case |-> 0, ante |-> FALSE, pin |-> NoPin, unamb |-> FALSE, out |-> TRUE])
    /\ lastcase' = 0 /\ ok' = (ok /\ joined' = NoRes) /\ UNCHANGED cited

SNext == Len(items) < MaxItems /\ (AddFull \/ AddShort \/ AddSupra \/ AddId \/ AddSection)
SSpec == SInit /\ [][SNext]_svars

(* C05 on the model *)
Intended == ok
OnePerCase == \A f, g \in fulls : (f.c.k = "fc" /\ g.c.k = "fc") =>
                 ((f.r = g.r) <=> (f.c.rv = g.c.rv /\ f.c.pg = g.c.pg))
EmitScenario == Len(items) = MaxItems => PrintT(<<"S", ToJson(items)>>)
=============================================================================
