-------------------------------- MODULE Hits --------------------------------
(* Vacuity accounting for the trace monitors: every Trace_X module defines, next to Holds(cl, t),
   Exercised(cl, t) -- the clause's premise has at least one instance on trace t (the universally
   quantified antecedent is not empty) -- and prints one short line <<"HIT", t, mask>> per trace;
   bit i-1 of mask stands for ClauseSeq[i].  The harness sums the bits per clause into the
   evidence (coverage.clause_exercised) and names clauses that were never exercised. *)
EXTENDS Integers, Sequences
Mask(bits) == LET f[hb \in 0..Len(bits)] == IF hb = 0 THEN 0 ELSE f[hb-1] + (IF bits[hb] THEN 2^(hb-1) ELSE 0)
              IN f[Len(bits)]
=============================================================================
