------------------------------ MODULE Eyecite ------------------------------
(***************************************************************************)
(* The session a user runs, as a state machine over the public API:         *)
(*                                                                          *)
(*   clean_text -> get_citations (a tokenizer, plain / remove_ambiguous,    *)
(*   plain or markup mode) -> [extract_reference_citations + filter]* ->    *)
(*   resolve_citations (the whole list or a prefix) -> annotate_citations   *)
(*   with the returned spans (unchecked / skip / wrap)                      *)
(*                                                                          *)
(* Each public call is one action.  The component modules specify what a    *)
(* call computes (Clean, Tokenize, Extract, Filter, Editions, Resolve,      *)
(* SpanUpdater, Annotate); this module specifies how calls compose: which   *)
(* call may follow which, what each consumes from the previous one, and the *)
(* session-level guarantees.  There is NO action for a raised exception:    *)
(* a recorded session in which a call raised is not a behaviour (C04).      *)
(*                                                                          *)
(* Abstract session state: the text (only its length matters here), the     *)
(* citation list as a sequence of [s, e, kind] (spans and kinds as returned)*)
(* , the resolution as a partition of list positions, the annotation output *)
(* as the sequence of spans that were wrapped.                              *)
(***************************************************************************)
EXTENDS Integers, Sequences, FiniteSets, TLC

CONSTANTS Tokenizers, Modes, MaxLen, MaxCites

VARIABLES stage,    \* "start" | "cleaned" | "extracted" | "merged" | "resolved" | "annotated"
          n,        \* length of the (cleaned) text the offsets refer to
          cfg,      \* [tok, ra, mode]
          cites,    \* returned citations
          groups,   \* resolution: sequence of sequences of positions in cites
          wrapped   \* spans enclosed by annotate_citations, in output order
vars == <<stage, n, cfg, cites, groups, wrapped>>

Kinds == {"full", "short", "supra", "id", "ref", "unknown"}
Ordered(cs) == \A k \in 1..(Len(cs) - 1) : cs[k].e <= cs[k+1].s        \* C03: in order, disjoint
InText(cs, len) == \A k \in DOMAIN cs : 0 <= cs[k].s /\ cs[k].s < cs[k].e /\ cs[k].e <= len   \* C02

Init == /\ stage = "start" /\ n \in 0..MaxLen /\ cites = <<>> /\ groups = <<>> /\ wrapped = <<>>
        /\ cfg = [tok |-> CHOOSE t \in Tokenizers : TRUE, ra |-> FALSE, mode |-> CHOOSE m \in Modes : TRUE]

CallCleanWith(m) == /\ stage = "start" /\ stage' = "cleaned"
                    /\ m \in 0..n /\ n' = m                 \* cleaning never lengthens the text
                    /\ UNCHANGED <<cfg, cites, groups, wrapped>>
CallClean == \E m \in 0..n : CallCleanWith(m)

(* get_citations returns SOME list satisfying C02 / C03 (and C19 for references) for this text *)
GoodCites(cs, len) == /\ InText(cs, len) /\ Ordered(cs)
                      /\ \A j \in DOMAIN cs : cs[j].kind = "ref" => \E i \in 1..(j-1) : cs[i].kind = "full"
CallGetCitationsWith(tok, ra, cs) ==
    /\ stage \in {"start", "cleaned"}
    /\ cfg' = [cfg EXCEPT !.tok = tok, !.ra = ra]
    /\ GoodCites(cs, n) /\ cites' = cs
    /\ stage' = "extracted" /\ UNCHANGED <<n, groups, wrapped>>
CallGetCitations ==
    \E tok \in Tokenizers, ra \in BOOLEAN, k \in 0..MaxCites :
       \E cs \in [1..k -> [s : 0..n, e : 0..n, kind : Kinds]] : CallGetCitationsWith(tok, ra, cs)

(* two-step flow: extra reference citations merged with the public filter (C03): the result is again
   a good list, and it keeps every non-reference citation (references may come and go) *)
NonRefs(cs) == SelectSeq(cs, LAMBDA c : c.kind # "ref")
CallMergeWith(cs) ==
    /\ stage \in {"extracted", "merged"}
    /\ GoodCites(cs, n) /\ NonRefs(cs) = NonRefs(cites)
    /\ cites' = cs
    /\ stage' = "merged" /\ UNCHANGED <<n, cfg, groups, wrapped>>
(* model-checking form: one reference is added at a time *)
CallMergeReferences ==
    /\ stage \in {"extracted", "merged"}
    /\ \/ UNCHANGED cites                       \* every extra reference was a duplicate or overlapped
       \/ /\ Len(cites) < MaxCites
          /\ \E pos \in 1..(Len(cites) + 1), a \in 0..n, b \in 0..n :
               LET cs == SubSeq(cites, 1, pos - 1) \o <<[s |-> a, e |-> b, kind |-> "ref"]>>
                         \o SubSeq(cites, pos, Len(cites)) IN
               /\ InText(cs, n) /\ Ordered(cs)
               /\ \E i \in 1..(pos - 1) : cites[i].kind = "full"
               /\ cites' = cs
    /\ stage' = "merged" /\ UNCHANGED <<n, cfg, groups, wrapped>>

(* resolve_citations: a partition of some of the positions into ordered groups, each headed by
   a full citation, unknown citations nowhere (C06); any prefix may be resolved (C08) *)
IsPartition(gs, upto) ==
    /\ \A g \in DOMAIN gs : /\ gs[g] # <<>>
                            /\ \A x \in 1..(Len(gs[g]) - 1) : gs[g][x] < gs[g][x+1]
                            /\ \A x \in DOMAIN gs[g] : gs[g][x] \in 1..upto
                            /\ cites[gs[g][1]].kind = "full"
                            /\ \A x \in DOMAIN gs[g] : cites[gs[g][x]].kind # "unknown"
    /\ \A g, h \in DOMAIN gs : g # h => {gs[g][x] : x \in DOMAIN gs[g]} \cap {gs[h][x] : x \in DOMAIN gs[h]} = {}
    /\ \A p \in 1..upto : cites[p].kind = "full" => \E g \in DOMAIN gs : \E x \in DOMAIN gs[g] : gs[g][x] = p
CallResolveWith(gs) ==
    /\ stage \in {"extracted", "merged"}
    /\ \E upto \in 0..Len(cites) : IsPartition(gs, upto)
    /\ groups' = gs
    /\ stage' = "resolved" /\ UNCHANGED <<n, cfg, cites, wrapped>>
CallResolve ==
    \E upto \in 0..Len(cites) :
       \E heads \in SUBSET {p \in 1..upto : cites[p].kind = "full"} :
          \* one group per chosen head; every other position joins an earlier head or nothing
          \E asg \in [1..upto -> 0..upto] :
             /\ \A p \in 1..upto : asg[p] \in heads \cup {0}
             /\ \A p \in 1..upto : (asg[p] # 0 => asg[p] <= p) /\ (p \in heads => asg[p] = p)
             /\ LET hs == SelectSeq([x \in 1..upto |-> x], LAMBDA x : x \in heads)
                IN CallResolveWith([g \in DOMAIN hs |-> SelectSeq([x \in 1..upto |-> x], LAMBDA x : asg[x] = hs[g])])

(* annotate_citations with the returned spans: every span is wrapped, in order (C09 / C10) *)
CallAnnotateWith(m, w) ==
    /\ stage \in {"extracted", "merged", "resolved", "annotated"}
    /\ cfg' = [cfg EXCEPT !.mode = m]
    /\ w = [k \in DOMAIN cites |-> <<cites[k].s, cites[k].e>>]
    /\ wrapped' = w
    /\ stage' = "annotated" /\ UNCHANGED <<n, cites, groups>>
CallAnnotate == \E m \in Modes : CallAnnotateWith(m, [k \in DOMAIN cites |-> <<cites[k].s, cites[k].e>>])

Next == CallClean \/ CallGetCitations \/ CallMergeReferences \/ CallResolve \/ CallAnnotate
Spec == Init /\ [][Next]_vars

(* session-level guarantees *)
CitesWellFormed == InText(cites, n) /\ Ordered(cites)
ResolutionIsPartition == stage = "resolved" => \E upto \in 0..Len(cites) : IsPartition(groups, upto)
MergeKeepsNonRefs == [][stage' = "merged" => NonRefs(cites') = NonRefs(cites)]_vars
AnnotateCoversReturnedSpans == stage = "annotated" =>
    /\ Len(wrapped) = Len(cites)
    /\ \A k \in 1..(Len(wrapped) - 1) : wrapped[k][2] <= wrapped[k+1][1]
=============================================================================
