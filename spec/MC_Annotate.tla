---------------------------- MODULE MC_Annotate ----------------------------
(* Model-checking instance of Annotate.tla: target text, mode and annotation
   list are built by actions, then the loop runs. *)
EXTENDS Annotate, Json
CONSTANTS MaxToks, MaxAnns, TokSet,
          WfOnly,      \* TRUE: only well-formed markup is built (the domain of C11), with a source
          Modes

Tok(c, n) == [c |-> c, n |-> n]
ToksBasic == {Tok("t", 1), Tok("t", 12), Tok("w", 1), Tok("oi", 3), Tok("ci", 4), Tok("op", 3), Tok("cp", 4)}
ToksBold  == ToksBasic \cup {Tok("ob", 3), Tok("cb", 4)}
AllModes == {"unchecked", "skip", "wrap"}
TagModes == {"skip", "wrap"}
ToksWf    == {Tok("t", 1), Tok("oi", 3), Tok("ci", 4), Tok("op", 3), Tok("cp", 4)}
ToksStyle == {Tok("t", 1), Tok("oi", 3), Tok("ci", 4)}                 \* style runs, two annotations (repair vs next span)
ToksWfSc  == {Tok("t", 1), Tok("ob", 3), Tok("cb", 4), Tok("sc", 5)}      \* bold runs with self-closing elements (<br/>)
ToksDel   == {Tok("t", 1), Tok("d", 1)}                                  \* the source lacks parts of the plain text
ToksDelTag == {Tok("t", 1), Tok("d", 1), Tok("oi", 3), Tok("ci", 4)}      \* ... and has tags (never next to a deletion:
                                                                         \*  the order of "-" and "+" in a diff script is the engine's choice)
ToksWfDiv == {Tok("t", 1), Tok("od", 5), Tok("cd", 6), Tok("oi", 3), Tok("ci", 4)}   \* <div> elements: the name of the balance test's own wrapper
ToksText  == {Tok("t", 1), Tok("t", 2), Tok("w", 1), Tok("w", 2), Tok("oi", 3), Tok("ci", 4)}

(* stack of open tags after a prefix (only called on prefixes that nest properly) *)
RECURSIVE OpenStack(_, _, _)
OpenStack(s, x, st) == IF x > Len(s) THEN st
                       ELSE IF IsOpen(s[x].c) THEN OpenStack(s, x + 1, Append(st, TagName(s[x].c)))
                       ELSE IF IsClose(s[x].c) THEN OpenStack(s, x + 1, Front(st))
                       ELSE OpenStack(s, x + 1, st)
KeepsWf(t) == LET st == OpenStack(src, 1, <<>>) IN
              /\ (IsClose(t.c) => (st # <<>> /\ st[Len(st)] = TagName(t.c)))
              /\ (IsOpen(t.c) => Len(st) + 1 <= MaxToks - Len(src) - 1)     \* room left to close it
              /\ (~IsOpen(t.c) /\ ~IsClose(t.c) => Len(st) <= MaxToks - Len(src) - 1)
Init == /\ src = <<>> /\ hasSrc \in (IF WfOnly THEN {TRUE} ELSE BOOLEAN) /\ mode \in Modes
        /\ anns = <<>> /\ pc = "text" /\ k = 1 /\ lastEnd = 0 /\ out = <<>> /\ err = "none"
AddTok == /\ pc = "text" /\ Len(src) < MaxToks
          /\ \E t \in TokSet : /\ (t.c \in {"w", "d"} => hasSrc) /\ (WfOnly => KeepsWf(t))
                               /\ (src # <<>> => LET p == src[Len(src)].c IN
                                      ~(t.c = "d" /\ p \notin {"t", "d"}) /\ ~(p = "d" /\ t.c \notin {"t", "d"}))
                               /\ src' = Append(src, t)
          /\ UNCHANGED <<hasSrc, mode, anns, pc, k, lastEnd, out, err>>
TextDone == /\ pc = "text" /\ pc' = "anns" /\ (WfOnly => OpenStack(src, 1, <<>>) = <<>>)
            /\ UNCHANGED <<src, hasSrc, mode, anns, k, lastEnd, out, err>>
(* annotations in sorted order: overlapping, empty, touching, identical spans all occur *)
AddAnn == /\ pc = "anns" /\ Len(anns) < MaxAnns
          /\ \E s, e \in (IF hasSrc THEN PlainBounds ELSE Bounds) :
               /\ s <= e
               /\ (anns # <<>> => LET p == anns[Len(anns)] IN p[1] < s \/ (p[1] = s /\ p[2] <= e))
               /\ anns' = Append(anns, <<s, e>>)
          /\ UNCHANGED <<src, hasSrc, mode, pc, k, lastEnd, out, err>>
Start == /\ pc = "anns" /\ pc' = "loop"
         /\ UNCHANGED <<src, hasSrc, mode, anns, k, lastEnd, out, err>>
Next == AddTok \/ TextDone \/ AddAnn \/ Start \/ LoopStep \/ Finish
Spec == Init /\ [][Next]_vars

(* C10: exact enclosure under forced alignment *)
PlainStart(j) == LET F[m \in 0..Len(src)] == IF m = 0 THEN 0
                      ELSE F[m-1] + (IF src[m].c = "t" THEN src[m].n ELSE 0) IN F[j-1]
SrcPosOfPlain(p) == LET j == CHOOSE j \in 1..Len(src) :
                              src[j].c = "t" /\ PlainStart(j) <= p /\ p < PlainStart(j) + src[j].n
                    IN Off(j) + (p - PlainStart(j))
NonOverlapping(kk) == \A q \in 1..(kk-1) : anns[q][2] <= anns[kk][1]
PosB(kk) == CHOOSE x \in DOMAIN out : out[x] = <<"B", kk>>
ExactEnclosure ==
  (pc = "done" /\ err = "none" /\ mode = "unchecked") =>
    \A kk \in DOMAIN anns :
      (anns[kk][1] < anns[kk][2] /\ NonOverlapping(kk)) =>
        LET a == IF hasSrc THEN SrcPosOfPlain(anns[kk][1]) ELSE anns[kk][1]
            b == IF hasSrc THEN SrcPosOfPlain(anns[kk][2] - 1) + 1 ELSE anns[kk][2]
        IN /\ Cardinality({x \in DOMAIN out : out[x] = <<"B", kk>>}) = 1
           /\ PosB(kk) + 2 <= Len(out)
           /\ out[PosB(kk) + 1] = <<"s", a, b>> /\ out[PosB(kk) + 2] = <<"A", kk>>
InOrder == pc = "done" =>
    \A x, y \in DOMAIN out : (x < y /\ out[x][1] = "B" /\ out[y][1] = "B") => out[x][2] <= out[y][2]
(* C11 second half: wrap keeps every annotation that is not entirely covered *)
WrapKeepsAll == (pc = "done" /\ err = "none" /\ mode = "wrap" /\ SourceWellFormed) =>
    \A kk \in DOMAIN anns : (anns[kk][1] < anns[kk][2] /\ NonOverlapping(kk)) => kk \in Emitted

EmitDone == pc = "done" =>
    PrintT(<<"R", ToJson([src |-> src, hasSrc |-> hasSrc, mode |-> mode, anns |-> anns, out |-> out])>>)
=============================================================================
