SPECIFICATION HSpec
CONSTANTS
  Threads = {t1, t2}
  Texts = {"A", "B", "C"}
  Extractors = {1, 2, 3}
  MatchOf <- MatchDef
  TieOf <- TieDef
  MergeOf <- MergeDef
  EdSetOrder = FALSE
  SetOrder = FALSE
  SharedSel = FALSE
  MaxCalls = 3
INVARIANT Pure
PROPERTY Frozen
CHECK_DEADLOCK FALSE
