------------------------ MODULE Trace_ResolveGeneric ------------------------
(* Trace validation of resolve_citations with table-driven user callbacks against ResolveGeneric.tla.
   A trace: k (kinds), o (what the callback at each position returns), recs (per position, built
   from the callbacks' own log: ncalls, and what the callback was handed: n = length of the
   resolved_full_cites list, list = its content as <<position, resolution>>, last = the id. resolver's
   last_resolution), g (the returned mapping: groups [key, m] in dict order), r (exception or "").
   The specification's Step action is taken once per position; after each step the model's `arg` must
   equal the logged arguments, at the end the model's groups must equal the returned mapping. *)
EXTENDS ResolveGeneric, Json, IOUtils
Traces == JsonDeserialize(IOEnv.TRACE_FILE)
NT == Len(Traces)
VARIABLES tid, bucket
NB == 64
T(t) == Traces[t]
tvars == <<vars, tid, bucket>>
TInit == /\ tid = 0 /\ bucket \in 0..(NB - 1)
         /\ kinds = <<>> /\ outs = <<>> /\ phase = "build" /\ pos = 1
         /\ groups = <<>> /\ rfc = <<>> /\ last = None /\ arg = NoArg
Pick == /\ tid = 0 /\ \E t \in {x \in 1..NT : x % NB = bucket} :
             tid' = t /\ kinds' = T(t).k /\ outs' = T(t).o
        /\ phase' = "run" /\ UNCHANGED <<pos, groups, rfc, last, arg, bucket>>
TNext == Pick \/ ((Step \/ Finish) /\ UNCHANGED <<tid, bucket>>)
TSpec == TInit /\ [][TNext]_tvars

Pairs(l) == [x \in DOMAIN l |-> <<l[x][1], l[x][2]>>]
Logged(t, p) == LET r == T(t).recs[p] IN [n |-> r.n, list |-> Pairs(r.list), last |-> r.last]
Calls(t, p) == IF T(t).k[p] = "unknown" THEN 0 ELSE 1
ObsGroups(t) == [j \in DOMAIN T(t).g |-> [key |-> T(t).g[j].key, m |-> T(t).g[j].m]]
Conform ==
  /\ (tid # 0 /\ phase = "run" /\ pos > 1 /\ T(tid).r = "") =>
        \/ (T(tid).recs[pos-1].ncalls = Calls(tid, pos-1) /\ (Calls(tid, pos-1) = 1 => arg = Logged(tid, pos-1)))
        \/ PrintT(<<"DRIFT", tid, pos-1>>)
  /\ (tid # 0 /\ phase = "done") =>
        \/ (T(tid).r = "" /\ groups = ObsGroups(tid))
        \/ PrintT(<<"DRIFT", tid, 0>>)
Done == (tid # 0 /\ phase = "done") => PrintT(<<"DONE", tid>>)
=============================================================================
