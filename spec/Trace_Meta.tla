----------------------------- MODULE Trace_Meta -----------------------------
(* Trace validation of Meta.tla against get_citations (binding by the guarded match_on_tokens hook).
   One trace = one document: text (code points), token list, and for every citation built from a
   token, in extraction order: form, token index / offsets, the forward and backward matcher events
   (window length, prefix length, matched, match length, group spans inside the window) and the
   metadata the library returned (obs).  The model's only state is what the code carries from one
   citation to the next (prev: the citation appended just before -- is_parallel_citation); TLC takes
   one MetaStep per citation, recomputes every value from the document at the places the events
   name and compares with obs (DRIFT with the first differing field otherwise).  After a difference
   the model continues from the OBSERVED values, so the rest of the document is still checked.
   Also checked per citation: each logged window IS the document slice the model says it is
   (winok, computed by the harness from the event text), and add_pre_citation was called iff the
   model wants it. *)
EXTENDS Meta, Json, IOUtils
File == JsonDeserialize(IOEnv.TRACE_FILE)     \* [highest |-> helpers._highest_valid_year, traces |-> <<...>>]
Traces == File.traces
TraceHighest == File.highest
NT == Len(Traces)
VARIABLES tid, bucket, l, prev
NB == 64
T(t) == Traces[t]
Fields == <<"pin", "extra", "paren", "year", "ynum", "plaintiff", "defendant", "ante", "publisher", "day", "month", "volume", "fsattr">>
FirstDiff(x, o) == LET d == {f \in DOMAIN Fields : x[Fields[f]] # o[Fields[f]]} IN
                   IF d = {} THEN "" ELSE Fields[CHOOSE f \in d : \A g \in d : f <= g]
PreCallOK(doc, r) == r.form = "full" => (r.back.present = PreWanted(DefendantOf(doc, r, PostOf(doc, r))))

TInit == tid = 0 /\ bucket \in 0..(NB - 1) /\ l = 0 /\ prev = NoPrev
TPick == tid = 0 /\ (\E t \in {x \in 1..NT : x % NB = bucket} : tid' = t) /\ l' = 1 /\ UNCHANGED <<bucket, prev>>
TStep == /\ tid # 0 /\ l >= 1 /\ l <= Len(T(tid).cites)
         /\ LET tr == T(tid)  r0 == tr.cites[l]
                r == r0 @@ [words |-> tr.words]
                x == MetaOf(tr.text, r, prev)
                d == IF r.judge THEN FirstDiff(x, r.obs) ELSE ""
            IN /\ (IF d = "" THEN TRUE ELSE PrintT(<<"DRIFT", tid, l, d>>))       \* (IF, not \/: a disjunction in an action is two branches)
               /\ (IF ~r.judge \/ (r.winok /\ PreCallOK(tr.text, r)) THEN TRUE ELSE PrintT(<<"DRIFT", tid, l, "window-or-call">>))
               /\ prev' = PrevOf(r, r.obs)
         /\ l' = l + 1 /\ UNCHANGED <<tid, bucket>>
TSpec == TInit /\ [][TPick \/ TStep]_<<tid, bucket, l, prev>>
Done == (tid # 0 /\ l = Len(T(tid).cites) + 1) => PrintT(<<"DONE", tid>>)
=============================================================================
