------------------------------ MODULE Editions ------------------------------
(***************************************************************************)
(* Year parsing and edition guessing:                                       *)
(*   helpers.get_year, models.Edition.includes_year,                        *)
(*   models.ResourceCitation.guess_edition, helpers.disambiguate_reporters. *)
(* An edition is [id, start, end] with start / end a year or NoBound.       *)
(* A year string is abstracted to its integer value, or NoYear when the     *)
(* text has no four-digit year.                                             *)
(***************************************************************************)
EXTENDS Integers, Sequences, FiniteSets, TLC

CONSTANTS NoId,         \* edition id of "no guess" (same type as edition ids)
          Today,        \* date.today().year
          MinYear       \* 1600
NoBound == -1
NoYear  == -1
NoGuess == [id |-> NoId, start |-> NoBound, end |-> NoBound]

(* helpers.get_year: int() then range check; the repaired pre-citation path uses it too *)
GetYear(y) == IF y = NoYear THEN NoYear
              ELSE IF y < MinYear \/ y > Today + 1 THEN NoYear ELSE y
(* the original pre-citation path: int(year) without the range check *)
GetYearUnchecked(y) == y

Includes(ed, y) == /\ y <= Today
                   /\ (ed.start = NoBound \/ ed.start <= y)
                   /\ (ed.end = NoBound \/ ed.end >= y)

(* guess_edition: exact candidates if any, else variations; filter by year only when there
   are several and a year is known; accept a single survivor *)
Guess(exact, var, year) ==
    LET cands == IF exact # {} THEN exact ELSE var
        byYear == IF Cardinality(cands) > 1 /\ year # NoYear
                  THEN {e \in cands : Includes(e, year)} ELSE cands
    IN  IF Cardinality(byYear) = 1 THEN CHOOSE e \in byYear : TRUE ELSE NoGuess

(* ---- C18 as predicates ---- *)
YearOK(textYear, year) == year # NoYear => (MinYear <= year /\ year <= Today + 1 /\ year = textYear)
GuessOK(exact, var, year, g) ==
    LET cands == IF exact # {} THEN exact ELSE var IN
    /\ (g # NoGuess => g \in cands)
    /\ (Cardinality(cands) = 1 => g \in cands)
    /\ ((Cardinality(cands) > 1 /\ g # NoGuess) =>
            (year # NoYear /\ {e \in cands : Includes(e, year)} = {g}))
=============================================================================
