------------------------------- MODULE Meta -------------------------------
(***************************************************************************)
(* The VALUES of the metadata a citation carries, as the extractors derive *)
(* them (helpers.add_post_citation, add_defendant, add_pre_citation,        *)
(* add_law_metadata, add_journal_metadata, extract_pin_cite,                *)
(* process_parenthetical, clean_pin_cite, get_year, find._extract_*,        *)
(* FullCaseCitation.is_parallel_citation).  Extract.tla covers the offsets; *)
(* this module covers what is read at those offsets.                        *)
(*                                                                          *)
(* Text travels as code-point sequences; Python None is the sentinel None   *)
(* (no text contains -1); numeric None is NoInt.  The regex matchers are    *)
(* not modelled: their results (which groups matched where in the window)   *)
(* are inputs -- nondeterministic in the model-checking instance, bound     *)
(* from the guarded match_on_tokens hook in Trace_Meta.  Every window is a  *)
(* slice of the document (C12: tokens partition the text), so a group span  *)
(* names a place in the document, and every value is computed from the      *)
(* document at that place.                                                  *)
(***************************************************************************)
EXTENDS Integers, Sequences, FiniteSets, TLC

CONSTANTS HighestYear,   \* helpers._highest_valid_year (next calendar year)
          BackSeek       \* helpers.BACKWARD_SEEK

LP == 40  RP == 41  SP == 32  CM == 44
None == <<-1>>
NoInt == -99
WS == {9, 10, 11, 12, 13, 28, 29, 30, 31, 32, 133, 160, 5760, 8232, 8233, 8239, 8287, 12288} \cup (8192..8202)   \* str.isspace
Digit(c) == c \in 48..57
Falsy(x) == x = None \/ x = <<>>
OrNone(x) == IF Falsy(x) THEN None ELSE x
Py(t, a, b) == SubSeq(t, a + 1, b)                          \* t[a:b] for 0 <= a <= b <= len(t)

LCount(t, S) == IF \A i \in DOMAIN t : t[i] \in S THEN Len(t)
                ELSE (CHOOSE i \in DOMAIN t : t[i] \notin S /\ \A j \in 1..(i - 1) : t[j] \in S) - 1
RCount(t, S) == IF \A i \in DOMAIN t : t[i] \in S THEN Len(t)
                ELSE Len(t) - (CHOOSE i \in DOMAIN t : t[i] \notin S /\ \A j \in (i + 1)..Len(t) : t[j] \in S)
LStrip(t, S) == SubSeq(t, LCount(t, S) + 1, Len(t))
RStrip(t, S) == SubSeq(t, 1, Len(t) - RCount(t, S))
Strip(t, S) == RStrip(LStrip(t, S), S)

(* helpers.clean_pin_cite *)
CleanPin(p) == IF p = None THEN None ELSE Strip(p, {CM, SP})

(* helpers.get_year on a string of four ASCII digits (what the year groups match) *)
AllDigits(y) == y # None /\ Len(y) > 0 /\ \A i \in DOMAIN y : Digit(y[i])
GetYear(y) == IF ~AllDigits(y) \/ Len(y) # 4 THEN NoInt
              ELSE LET v == (y[1] - 48) * 1000 + (y[2] - 48) * 100 + (y[3] - 48) * 10 + (y[4] - 48)
                   IN  IF v < 1600 \/ v > HighestYear THEN NoInt ELSE v

(* helpers.process_parenthetical, closed form: the text up to the first unmatched ")", else the
   whole text unless it starts like a year; never the empty string *)
YearLike(p) == Len(p) >= 4 /\ \A i \in 1..4 : Digit(p[i])
Balance(p) == [i \in 0..Len(p) |->
                 LET F[k \in 0..Len(p)] == IF k = 0 THEN 0
                                           ELSE F[k - 1] + (IF p[k] = LP THEN 1 ELSE IF p[k] = RP THEN -1 ELSE 0)
                 IN F[i]]
ProcessParen(p) ==
  IF p = None THEN None
  ELSE LET B == Balance(p)
           neg == {i \in 1..Len(p) : B[i] < 0}
       IN  IF neg # {} THEN OrNone(SubSeq(p, 1, (CHOOSE i \in neg : \A j \in neg : i <= j) - 1))
           ELSE IF YearLike(p) THEN None ELSE OrNone(p)

\* DEFENDANT_YEAR_REGEX (anything, one whitespace, a four-digit year in parentheses, end) on a defendant text without line breaks
DefYearMatch(d) == LET n == Len(d) IN
   n >= 7 /\ d[n] = RP /\ d[n - 5] = LP /\ (\A i \in (n - 4)..(n - 1) : Digit(d[i])) /\ d[n - 6] \in {SP, 9}

(* ---- the document: token list [k, n, semi] over the text ---- *)
StartOf(words, j) == LET F[m \in 0..Len(words)] == IF m = 0 THEN 0 ELSE F[m - 1] + words[m].n IN F[j - 1]
(* add_defendant's backward scan: index of the stop word it ends at, 0 when there is none *)
RECURSIVE ScanStop(_, _, _)
ScanStop(words, idx, j) ==
    IF j < 1 \/ j <= idx - BackSeek THEN 0
    ELSE IF words[j].k \in {"stopv", "stop"} THEN j
    ELSE IF words[j].semi THEN 0
    ELSE ScanStop(words, idx, j - 1)

G(doc, ws, g) == IF g[1] < 0 THEN None ELSE Py(doc, ws + g[1], ws + g[2])   \* text of a regex group at window start ws

NoMeta == [pin |-> None, extra |-> None, paren |-> None, year |-> None, ynum |-> NoInt, plaintiff |-> None,
           defendant |-> None, ante |-> None, publisher |-> None, day |-> None, month |-> None, volume |-> None,
           fsattr |-> NoInt]
NoPrev == [full |-> FALSE, fsattr |-> NoInt, plaintiff |-> None, defendant |-> None, year |-> None, ynum |-> NoInt]

(* pin cite and parenthetical of extract_pin_cite (short / supra / id forms) *)
PinOf(doc, r) ==
  LET f == r.fwd  ws == r.te - f.pre IN
  IF ~(f.present /\ f.matched) THEN [pin |-> None, paren |-> None]
  ELSE [pin |-> IF Falsy(G(doc, ws, f.g.pin_cite)) THEN None ELSE CleanPin(G(doc, ws, f.g.pin_cite)),
        paren |-> ProcessParen(G(doc, ws, f.g.parenthetical))]

(* step 1 of a full case citation: add_post_citation *)
PostOf(doc, r) ==
  LET f == r.fwd  ws == r.te IN
  IF ~(f.present /\ f.matched) THEN NoMeta
  ELSE LET ex == G(doc, ws, f.g.extra)
           yr == G(doc, ws, f.g.year)
       IN [NoMeta EXCEPT !.pin = OrNone(CleanPin(G(doc, ws, f.g.pin_cite))),
                         !.extra = OrNone(Strip(IF ex = None THEN <<>> ELSE ex, WS)),
                         !.paren = ProcessParen(G(doc, ws, f.g.parenthetical)),
                         !.year = yr,
                         !.ynum = IF Falsy(yr) THEN NoInt ELSE GetYear(yr)]
(* step 2: add_defendant *)
DefendantOf(doc, r, m) ==
  LET words == r.words  idx == r.idx  j == ScanStop(words, idx, idx - 1) IN
  IF j = 0 THEN m
  ELSE LET isv == words[j].k = "stopv" /\ j > 1
           joined == Py(doc, StartOf(words, IF j - 2 > 1 THEN j - 2 ELSE 1), StartOf(words, j))
           off == (r.ts - StartOf(words, j)) + (IF isv THEN Len(LStrip(joined, {LP, SP})) ELSE 0 - words[j].n)
           d0 == Strip(Py(doc, StartOf(words, j + 1), r.ts), {CM, SP, LP})
           m1 == [m EXCEPT !.plaintiff = IF isv THEN Strip(joined, {LP, SP}) ELSE m.plaintiff, !.fsattr = r.ts - off]
       IN IF Strip(d0, WS) = <<>> THEN m1
          ELSE IF DefYearMatch(d0)
               THEN LET y == SubSeq(d0, Len(d0) - 4, Len(d0) - 1) IN
                    [m1 EXCEPT !.defendant = SubSeq(d0, 1, Len(d0) - 7), !.year = y, !.ynum = GetYear(y)]
               ELSE [m1 EXCEPT !.defendant = d0]
(* step 3: add_pre_citation -- called only when neither party was found *)
PreWanted(m) == Falsy(m.plaintiff) /\ Falsy(m.defendant)
PreOf(doc, r, m) ==
  LET b == r.back  ws == r.ts - b.wlen IN
  IF ~PreWanted(m) \/ ~(b.present /\ b.matched) THEN m
  ELSE LET p == CleanPin(G(doc, ws, b.g.pin_cite)) IN
       [m EXCEPT !.pin = IF Falsy(p) THEN m.pin ELSE p, !.ante = G(doc, ws, b.g.antecedent), !.fsattr = r.ts - b.mlen]
(* step 4: is_parallel_citation against the citation appended just before *)
ParallelOf(m, prev) ==
  IF prev.full /\ m.fsattr # NoInt /\ m.fsattr = prev.fsattr
  THEN [m EXCEPT !.defendant = prev.defendant, !.plaintiff = prev.plaintiff, !.year = prev.year, !.ynum = prev.ynum]
  ELSE m

MetaOf(doc, r, prev) ==
  CASE r.form = "full" -> ParallelOf(PreOf(doc, r, DefendantOf(doc, r, PostOf(doc, r))), prev)
    [] r.form = "short" ->
         LET b == r.back  a == IF b.present /\ b.matched THEN G(doc, r.ts - b.wlen, b.g.antecedent) ELSE None
         IN [NoMeta EXCEPT !.pin = PinOf(doc, r).pin, !.paren = PinOf(doc, r).paren,
                           !.ante = IF a = None THEN None ELSE Strip(a, WS)]
    [] r.form = "supra" ->
         LET b == r.back  m == b.present /\ b.matched  ws == r.ts - b.wlen
         IN [NoMeta EXCEPT !.pin = PinOf(doc, r).pin, !.paren = PinOf(doc, r).paren,
                           !.ante = IF m THEN G(doc, ws, b.g.antecedent) ELSE None,
                           !.volume = IF m THEN G(doc, ws, b.g.volume) ELSE None]
    [] r.form = "id" -> [NoMeta EXCEPT !.pin = PinOf(doc, r).pin, !.paren = PinOf(doc, r).paren]
    [] r.form \in {"law", "journal"} ->
         LET f == r.fwd  ws == r.te IN
         IF ~(f.present /\ f.matched) THEN NoMeta
         ELSE LET yr == G(doc, ws, f.g.year) IN
              [NoMeta EXCEPT !.pin = OrNone(CleanPin(G(doc, ws, f.g.pin_cite))),
                             !.paren = ProcessParen(G(doc, ws, f.g.parenthetical)),
                             !.year = yr, !.ynum = IF Falsy(yr) THEN NoInt ELSE GetYear(yr),
                             !.publisher = IF r.form = "law" THEN G(doc, ws, f.g.publisher) ELSE None,
                             !.day = IF r.form = "law" THEN G(doc, ws, f.g.day) ELSE None,
                             !.month = IF r.form = "law" THEN G(doc, ws, f.g.month) ELSE None]
    [] OTHER -> NoMeta      \* unknown (section-sign) citations carry no extracted metadata
PrevOf(r, m) == [full |-> r.form = "full", fsattr |-> m.fsattr, plaintiff |-> m.plaintiff, defendant |-> m.defendant,
                 year |-> m.year, ynum |-> m.ynum]
=============================================================================
