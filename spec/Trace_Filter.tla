---------------------------- MODULE Trace_Filter ----------------------------
(* C03 on recorded results.
   kind "list": an MC_Filter list rebuilt from real citation objects, filtered once and twice
                by the real filter_citations (ids of the returned objects).
   kind "doc" : the projected result of get_citations on a document, and the merge histories
                (result extended with extracted reference citations, filtered once / twice). *)
EXTENDS Filter, Json, IOUtils, Hits
Traces == JsonDeserialize(IOEnv.TRACE_FILE)
NT == Len(Traces)
VARIABLES tid, bucket
NB == 64
T(t) == Traces[t]

Abs(cs) == [k \in DOMAIN cs |-> [s |-> cs[k].s, e |-> cs[k].e, fs |-> cs[k].fs, fe |-> cs[k].fe,
                                 kind |-> IF cs[k].ref THEN "ref"
                                          ELSE IF cs[k].cls = "FullCaseCitation" THEN "fc" ELSE "oth",
                                 id |-> k]]
Ids(r) == [k \in DOMAIN r |-> r[k].id]
Spans(r) == [k \in DOMAIN r |-> <<r[k].s, r[k].e, r[k].fs, r[k].fe, r[k].kind>>]
ById(l, ids) == [k \in DOMAIN ids |-> (CHOOSE c \in {l[j] : j \in DOMAIN l} : c.id = ids[k])]

ClauseSeq == <<"C04.noraise", "C03.order", "C03.nooverlap", "C03.keepsnonref", "C03.idempotent", "C03.merge.order", "C03.merge.nooverlap", "C03.merge.keepsnonref", "C03.merge.idempotent">>
Clauses == {ClauseSeq[ci] : ci \in DOMAIN ClauseSeq}
ASSUME PrintT(<<"CLAUSES", ToJson(ClauseSeq)>>)
Holds(cl, t) ==
  LET tr == T(t) IN
  IF tr.raised # "" THEN cl # "C04.noraise"
  ELSE IF tr.kind = "list" THEN
    LET r == ById(tr.l, tr.once) IN
    CASE cl = "C03.order"       -> InOrder(r)
      [] cl = "C03.nooverlap"   -> NoOverlap(r)
      [] cl = "C03.keepsnonref" -> KeepsNonRefs(tr.l, r)
      [] cl = "C03.idempotent"  -> tr.twice = tr.once
      [] OTHER -> TRUE
  ELSE
    CASE cl = "C03.order"     -> InOrder(Abs(tr.cites))
      [] cl = "C03.nooverlap" -> NoOverlap(Abs(tr.cites))
      [] cl = "C03.merge.order"     -> \A m \in DOMAIN tr.merges : InOrder(Abs(tr.merges[m].once))
      [] cl = "C03.merge.nooverlap" -> \A m \in DOMAIN tr.merges : NoOverlap(Abs(tr.merges[m].once))
      [] cl = "C03.merge.keepsnonref" -> \A m \in DOMAIN tr.merges :
             \A k \in DOMAIN tr.merges[m].ext : ~tr.merges[m].ext[k].ref =>
                 \E j \in DOMAIN tr.merges[m].once : /\ tr.merges[m].once[j].id = tr.merges[m].ext[k].id
                                                     /\ tr.merges[m].once[j].id # 0
      [] cl = "C03.merge.idempotent" -> \A m \in DOMAIN tr.merges : tr.merges[m].twice_same
      [] OTHER -> TRUE

TInit == tid = 0 /\ bucket \in 0..(NB - 1)
TNext == tid = 0 /\ (\E t \in {x \in 1..NT : x % NB = bucket} : tid' = t) /\ UNCHANGED bucket
TSpec == TInit /\ [][TNext]_<<tid, bucket>>
Exercised(cl, t) ==
  LET tr == T(t) IN
  IF cl = "C04.noraise" THEN TRUE
  ELSE IF tr.raised # "" THEN FALSE
  ELSE IF tr.kind = "list" THEN
    CASE cl = "C03.order"       -> Len(tr.once) >= 2
      [] cl \in {"C03.nooverlap", "C03.idempotent"} -> Len(tr.once) < Len(tr.l) /\ Len(tr.once) >= 1    \* something had to go
      [] cl = "C03.keepsnonref" -> Len(tr.once) < Len(tr.l) /\ \E k \in DOMAIN tr.l : tr.l[k].kind # "ref"
      [] OTHER -> FALSE
  ELSE
    LET added(m) == \E k \in DOMAIN tr.merges[m].ext : tr.merges[m].ext[k].ref IN
    CASE cl \in {"C03.order", "C03.nooverlap"} -> Len(tr.cites) >= 2
      [] cl \in {"C03.merge.order", "C03.merge.keepsnonref"} -> \E m \in DOMAIN tr.merges : added(m)
      [] cl \in {"C03.merge.nooverlap", "C03.merge.idempotent"} ->        \* a merge in which the filter had to drop something
            \E m \in DOMAIN tr.merges : added(m) /\ Len(tr.merges[m].once) < Len(tr.merges[m].ext)
      [] OTHER -> FALSE
Judge == tid # 0 => (/\ \A cl \in Clauses : Holds(cl, tid) \/ PrintT(<<"FAIL", tid, cl>>)
   /\ PrintT(<<"HIT", tid, Mask([ci \in DOMAIN ClauseSeq |-> Exercised(ClauseSeq[ci], tid)])>>))
(* conformance: the model's filter reproduces the real one *)
Conform == (tid # 0 /\ T(tid).raised = "") =>
   (IF T(tid).kind = "list"
    THEN Ids(FilterCitations(T(tid).l)) = T(tid).once
    ELSE \A m \in DOMAIN T(tid).merges :
            Spans(FilterCitations(Abs(T(tid).merges[m].ext))) = Spans(Abs(T(tid).merges[m].once)))
   \/ PrintT(<<"DRIFT", tid>>)
Done == tid # 0 => PrintT(<<"DONE", tid>>)
=============================================================================
