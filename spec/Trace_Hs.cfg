SPECIFICATION TSpec
CONSTANTS
  CatchAll = TRUE
  MaxFaults = 3
INVARIANT Judge
INVARIANT Conform
INVARIANT Done
CHECK_DEADLOCK FALSE
