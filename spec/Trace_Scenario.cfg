SPECIFICATION TSpec
INVARIANT Judge
INVARIANT NotJudged
INVARIANT Done
CHECK_DEADLOCK FALSE
