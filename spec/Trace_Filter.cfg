SPECIFICATION TSpec
CONSTANTS
  FinalSortBySpan = TRUE
  DedupePrefersNonRef = TRUE
  SweepCovers = TRUE
INVARIANT Judge
INVARIANT Conform
INVARIANT Done
CHECK_DEADLOCK FALSE
