SPECIFICATION Spec
CONSTANTS
  ClampIndex = TRUE
  EmptySpanClamp = TRUE
  SkipReclip = TRUE
  EmptySourceFix = TRUE
  Tol = 10
  MaxToks = 7
  MaxAnns = 1
  WfOnly = TRUE
  Modes <- TagModes
  TokSet <- ToksWfDiv
INVARIANT NoRaise
INVARIANT Additive
INVARIANT WellFormedOut
INVARIANT ExactEnclosure
INVARIANT InOrder
INVARIANT WrapKeepsAll
INVARIANT EmitDone
CHECK_DEADLOCK FALSE
