SPECIFICATION Spec
CONSTANTS
  BackSeek = 3
  MaxMatch = 1
  PrefixFix = TRUE
  PlaintiffFix = TRUE
  TokenFloor = TRUE
  MaxWords = 3
INVARIANT Laws
CHECK_DEADLOCK FALSE
