SPECIFICATION Spec
CONSTANTS
  FinalSortBySpan = TRUE
  DedupePrefersNonRef = TRUE
  SweepCovers = TRUE
  P = 6
  MaxNon = 4
  Focus = "none"
  MaxRef = 3
INVARIANT Sorted
INVARIANT Disjoint
INVARIANT NonRefsKept
INVARIANT Idempotent
INVARIANT EmitDeep
CHECK_DEADLOCK FALSE
