---------------------------- MODULE Trace_Extract ----------------------------
(* C02 and C17 on recorded results of get_citations (plain or markup mode, any tokenizer).
   text: the text the offsets refer to (code points); per citation: s/e span, fs/fe full span,
   ps/pe span_with_pincite, mt matched text, pin / poff (pin-cite text and the offset of an
   occurrence inside the pin-cite span; -2 = no pin cite for this kind, -1 = none found),
   w: witnesses for the textual metadata values: f field, v value, off offset of an occurrence
   inside the citation's own extent or the joint extent of the citations starting at the same
   place (-1 = none found).  TLC verifies every witness (slice equality and containment). *)
EXTENDS Integers, Sequences, FiniteSets, Json, IOUtils, TLC, Hits
Traces == JsonDeserialize(IOEnv.TRACE_FILE)
NT == Len(Traces)
VARIABLES tid, bucket
NB == 64
T(t) == Traces[t]
Slice(txt, a, b) == SubSeq(txt, a + 1, b)
Min2(S) == CHOOSE x \in S : \A y \in S : x <= y
Max2(S) == CHOOSE x \in S : \A y \in S : x >= y
SameStart(cs, k) == {j \in DOMAIN cs : cs[j].fs = cs[k].fs}
JointLo(cs, k) == Min2({cs[j].fs : j \in SameStart(cs, k)})
JointHi(cs, k) == Max2({cs[j].fe : j \in SameStart(cs, k)})

ClauseSeq == <<"C04.noraise", "C02.bounds", "C02.slice", "C02.pinspan", "C02.pintext", "C17.ownextent">>
Clauses == {ClauseSeq[ci] : ci \in DOMAIN ClauseSeq}
ASSUME PrintT(<<"CLAUSES", ToJson(ClauseSeq)>>)
Holds(cl, t) ==
  LET tr == T(t)  cs == tr.cites  n == Len(tr.text) IN
  IF tr.raised # "" THEN cl # "C04.noraise"
  ELSE CASE cl = "C02.bounds" -> \A k \in DOMAIN cs :
                 /\ 0 <= cs[k].fs /\ cs[k].fs <= cs[k].s /\ cs[k].s <= cs[k].e
                 /\ cs[k].e <= cs[k].fe /\ cs[k].fe <= n
    [] cl = "C02.slice" -> \A k \in DOMAIN cs :
                 (0 <= cs[k].s /\ cs[k].s <= cs[k].e /\ cs[k].e <= n) =>
                    /\ cs[k].e - cs[k].s >= Len(cs[k].mt)
                    /\ Slice(tr.text, cs[k].s, cs[k].s + Len(cs[k].mt)) = cs[k].mt
    [] cl = "C02.pinspan" -> \A k \in DOMAIN cs : cs[k].ps <= cs[k].s /\ cs[k].e <= cs[k].pe /\ 0 <= cs[k].ps /\ cs[k].pe <= n
    [] cl = "C02.pintext" -> \A k \in DOMAIN cs : cs[k].poff # -2 =>
                 /\ cs[k].poff >= cs[k].ps /\ cs[k].poff + Len(cs[k].pin) <= cs[k].pe
                 /\ cs[k].poff >= 0 /\ cs[k].poff + Len(cs[k].pin) <= n
                 /\ Slice(tr.text, cs[k].poff, cs[k].poff + Len(cs[k].pin)) = cs[k].pin
    [] cl = "C17.ownextent" -> \A k \in DOMAIN cs : \A x \in DOMAIN cs[k].w :
                 LET w == cs[k].w[x] IN
                 /\ w.off >= 0 /\ w.off + Len(w.v) <= n
                 /\ Slice(tr.text, w.off, w.off + Len(w.v)) = w.v
                 /\ \/ (cs[k].fs <= w.off /\ w.off + Len(w.v) <= cs[k].fe)
                    \/ (JointLo(cs, k) <= w.off /\ w.off + Len(w.v) <= JointHi(cs, k))
    [] OTHER -> TRUE
TInit == tid = 0 /\ bucket \in 0..(NB - 1)
TNext == tid = 0 /\ (\E t \in {x \in 1..NT : x % NB = bucket} : tid' = t) /\ UNCHANGED bucket
TSpec == TInit /\ [][TNext]_<<tid, bucket>>
Exercised(cl, t) ==
  LET tr == T(t)  cs == tr.cites IN
  IF cl = "C04.noraise" THEN TRUE
  ELSE IF tr.raised # "" THEN FALSE
  ELSE CASE cl = "C02.bounds"  -> \E k \in DOMAIN cs : cs[k].fs < cs[k].s /\ cs[k].e < cs[k].fe   \* a proper full span
    [] cl = "C02.slice"   -> cs # <<>>
    [] cl = "C02.pinspan" -> \E k \in DOMAIN cs : cs[k].ps < cs[k].s \/ cs[k].e < cs[k].pe        \* a proper pin-cite span
    [] cl = "C02.pintext" -> \E k \in DOMAIN cs : cs[k].poff # -2
    [] cl = "C17.ownextent" -> \E k \in DOMAIN cs : cs[k].w # <<>>
    [] OTHER -> FALSE
Judge == tid # 0 => (/\ \A cl \in Clauses : Holds(cl, tid) \/ PrintT(<<"FAIL", tid, cl>>)
   /\ PrintT(<<"HIT", tid, Mask([ci \in DOMAIN ClauseSeq |-> Exercised(ClauseSeq[ci], tid)])>>))
Done == tid # 0 => PrintT(<<"DONE", tid>>)
=============================================================================
