SPECIFICATION Spec
CONSTANTS
  HighestYear = 2027
  BackSeek = 28
  MaxLen = 6
  MaxCites = 4
  Emit = FALSE
INVARIANT ParenLaws
INVARIANT LoopInv
INVARIANT StripLaws
INVARIANT FoldLaws
INVARIANT YearLaws
CHECK_DEADLOCK FALSE
