SPECIFICATION Spec
CONSTANTS
  FinalSortBySpan = TRUE
  DedupePrefersNonRef = TRUE
  SweepCovers = TRUE
  P = 5
  MaxNon = 3
  Focus = "none"
  MaxRef = 1
INVARIANT Sorted
INVARIANT Disjoint
INVARIANT NonRefsKept
INVARIANT Idempotent
CHECK_DEADLOCK FALSE
