---------------------------- MODULE MC_Resolve ----------------------------
(* Model-checking instances of Resolve.tla: several focused alphabets, each
   opening one dimension fully while pinning the others (DESIGN 2.4). *)
EXTENDS Resolve, SequencesExt, Json
CONSTANT MaxFulls
Bound == Cardinality(fulls) <= MaxFulls

(* History for behaviour emission (binding B): the path that first reached a
   state and the position of each resource's head citation.  Both are hidden
   from the state identity by VIEW hcore, so they do not multiply states. *)
VARIABLES hist, hidx
hvars == <<vars, hist, hidx>>
hcore == <<fulls, last, nph, err>>
AlphaSeq == SetToSeq(Alphabet)
ASSUME PrintT(<<"ALPHABET", ToJson(AlphaSeq)>>)
HInit == Init /\ hist = <<>> /\ hidx = <<>>
HNext == \E i \in 1..Len(AlphaSeq) :
           LET c == AlphaSeq[i] IN
           /\ (c.k = "fc" /\ c.pg = NoPage => nph < MaxPh)
           /\ Step(c)
           /\ hist' = Append(hist, i)
           /\ hidx' = IF IsFull(c) /\ joined' \notin DOMAIN hidx
                      THEN hidx @@ (joined' :> Len(hist) + 1) ELSE hidx
HSpec == HInit /\ [][HNext]_hvars
(* one line per explored transition: path, expected head position (0 = unresolved), exception *)
Emit == PrintT(<<"T", hist', IF joined' = NoRes THEN 0 ELSE hidx'[joined'], err'>>)

Cite(k, rv, pg, pl, df, ag, nm, pin, id) ==
  [k |-> k, rv |-> rv, pg |-> pg, pl |-> pl, df |-> df, ag |-> ag, nm |-> nm, pin |-> pin, id |-> id]
FC(rv, pg, pl, df) == Cite("fc", rv, pg, pl, df, NoName, {}, NoPin, "")
FCT(rv, pg, txt)   == Cite("fc", rv, pg, {"a"}, {"b"}, NoName, {}, NoPin, txt)     \* a page identified by its text
FL(id)             == Cite("fl", "", NoGroup, {}, {}, NoName, {}, NoPin, id)
FJ(id, pg)         == Cite("fj", "", pg, {}, {}, NoName, {}, NoPin, id)
SC(rv, ag)         == Cite("sc", rv, NoGroup, {}, {}, ag, {}, NoPin, "")
SU(ag)             == Cite("su", "", NoGroup, {}, {}, ag, {}, NoPin, "")
RF(nm)             == Cite("rf", "", NoGroup, {}, {}, NoName, nm, NoPin, "")
ID(pin)            == Cite("id", "", NoGroup, {}, {}, NoName, {}, pin, "")
UN                 == Cite("un", "", NoGroup, {}, {}, NoName, {}, NoPin, "")

\* names: party-name ambiguity.  Two rv keys, one page, every plaintiff/defendant
\* over three atoms (sizes 0..2 / 1..2), every antecedent.
Names3 == {{}, {"a"}, {"b"}, {"c"}, {"a","b"}, {"b","c"}}
AlphaNames ==
     {FC(rv, 10, pl, df) : rv \in {"r1","r2"}, pl \in {{}, {"a"}, {"a","b"}}, df \in {{"b"}, {"c"}, {"b","c"}}}
  \cup {FC("r1", 300, {"a"}, {"b"})}
  \cup {SC(rv, ag) : rv \in {"r1","r2","r3"}, ag \in {NoName, "a", "b", "c", "d"}}
  \cup {SU(ag) : ag \in {NoName, "a", "b", "c", "d"}}
  \cup {RF({n}) : n \in {{"a"}, {"b"}, {"a","b"}, {"d"}}} \cup {RF({{"a"},{"c"}}), RF({})}
  \cup {ID(NoPin), UN}

\* pins: id. plausibility window, both boundaries of both pages, placeholder heads,
\* law without page group, journal with numeric / placeholder page.
AlphaPins ==
     {FC("r1", 10, {"a"}, {"b"}), FC("r2", 300, {"c"}, {"d"}), FC("r1", NoPage, {"a"}, {"b"}),
      FL("l1"), FJ("j1", 20), FJ("j1", NoPage),
      FCT("r3", NonNumeric, "95,342"), FCT("r3", Big, "1234567890"), FCT("r3", Huge, "huge"),
      SC("r1", NoName), SU("c"), SU("z"), UN}
  \cup {ID(p) : p \in {NoPin, BadPin, 9, 10, 160, 161, 299, 300, 450, 451, 19, 20, 170, 171}}

\* keys: colliding / distinct (reporter, volume), duplicate and placeholder-page fulls.
AlphaKeys ==
     {FC(rv, pg, {"a"}, {"b"}) : rv \in {"r1","r2"}, pg \in {10, 300, NoPage}}
  \cup {FC(rv, pg, {"c"}, {"d"}) : rv \in {"r1","r2"}, pg \in {10, NoPage}}
  \cup {FC("r1", 10, {}, {}), FC("r2", NoPage, {}, {})}      \* bare cites without party names
  \cup {FL("l1"), FL("l2"), FJ("j1", 20), FJ("j2", 20)}
  \cup {SC(rv, ag) : rv \in {"r1","r2"}, ag \in {NoName, "a", "c"}}
  \cup {SU("a"), SU("c"), RF({{"a"}}), ID(NoPin), ID(12), UN}

\* full: the product alphabet used with a shorter bound and by simulation
AlphaFull == AlphaNames \cup AlphaPins \cup AlphaKeys
=============================================================================
