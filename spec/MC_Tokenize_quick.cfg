SPECIFICATION Spec
CONSTANTS
  N = 5
  MaxCands = 3
  RewindOnPop = TRUE
  SpaceSets <- QuickSpaces
INVARIANT Partition
INVARIANT TextPieces
INVARIANT SelfIndex
INVARIANT Increasing
INVARIANT IndexExact
INVARIANT MachineIsRun
INVARIANT OrderIndependent
CHECK_DEADLOCK FALSE
