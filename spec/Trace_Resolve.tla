--------------------------- MODULE Trace_Resolve ---------------------------
(***************************************************************************)
(* Binding (C): recorded executions of the real resolve_citations checked   *)
(* against Resolve.tla, and the property monitors P_C04/C06/C07/C08         *)
(* evaluated on the real return values.                                     *)
(*                                                                          *)
(* Input (JSON, file named by env TRACE_FILE):                              *)
(*   alpha  : sequence of abstract citations (records as in Resolve.tla,    *)
(*            sets as arrays)                                               *)
(*   traces : sequence of                                                   *)
(*      p   : the input list, as indices into alpha                         *)
(*      g   : observed resolution: sequence of groups [key, m], m = input   *)
(*            positions (1-based; -1 = an object that is not in the input)  *)
(*            in the order of the returned list, groups in dict order       *)
(*      pre : for k = 0 .. Len(p)-1 the observed resolution of the first k  *)
(*            citations (same format, members only)                         *)
(*      r   : "" or the exception that escaped                              *)
(*                                                                          *)
(* Two layers (DESIGN 2.2):                                                 *)
(*  - monitors (clauses named Cnn.xxx): only the property text, evaluated   *)
(*    on the observation with ground truth from the abstract citations;     *)
(*    a failing clause prints <<"FAIL", trace, clause>> and never blocks.   *)
(*  - conformance: the implementation model is stepped along the input and  *)
(*    its per-step outcome compared with the observation; a difference      *)
(*    prints <<"DRIFT", trace, step, model, observed>>.                     *)
(***************************************************************************)
EXTENDS Resolve, SequencesExt, FiniteSetsExt, Json, IOUtils, Hits

Data   == JsonDeserialize(IOEnv.TRACE_FILE)
Conv(a) == [k |-> a.k, rv |-> a.rv, pg |-> a.pg, pl |-> ToSet(a.pl), df |-> ToSet(a.df),
            ag |-> a.ag, nm |-> {ToSet(n) : n \in ToSet(a.nm)}, pin |-> a.pin, id |-> a.id]
Alpha  == [i \in DOMAIN Data.alpha |-> Conv(Data.alpha[i])]
Traces == Data.traces
NT     == Len(Traces)

VARIABLES tid, l, hidx, bucket
tvars == <<vars, tid, l, hidx, bucket>>
NB == 64     \* initial states; each worker picks the traces of one bucket (parallel judging)

(* the input list: alphabet indices (constructed objects) or, for lists extracted from documents,
   the abstracted citations themselves *)
C(t)    == [i \in DOMAIN Traces[t].p |-> IF Traces[t].p[i] = 0 THEN Conv(Traces[t].cs[i]) ELSE Alpha[Traces[t].p[i]]]
G(t)    == Traces[t].g
Len0(s) == Len(s)

-----------------------------------------------------------------------------
(* ---------- ground truth from the abstract citations (property text) ----- *)
EqFull(c, d) ==
    \/ (c.k = "fc" /\ d.k = "fc" /\ c.rv = d.rv /\ c.pg = d.pg /\ c.pg # NoPage /\ c.id = d.id)   \* (id: text of a TextPages page)
    \/ (c.k \in {"fl", "fj"} /\ c.k = d.k /\ c.id = d.id /\ c.pg = d.pg)
(* representative (first equal full citation) of full position p *)
Rep(cs, p) == CHOOSE q \in 1..p : /\ (q = p \/ EqFull(cs[q], cs[p]))
                                  /\ \A q2 \in 1..(q-1) : ~EqFull(cs[q2], cs[p])
FullPos(cs, n) == {q \in 1..n : IsFull(cs[q])}
GroupOf(g, p)  == IF \E j \in DOMAIN g : p \in ToSet(g[j].m)
                  THEN CHOOSE j \in DOMAIN g : p \in ToSet(g[j].m) ELSE 0
Names(c) == c.pl \cup c.df

(* the set of resources (as representatives) a non-full citation at position i
   may be attached to according to C07, given what precedes it; for id. the
   observed outcome of the immediately preceding citation is used *)
Cands(cs, g, i) ==
  LET c  == cs[i]
      FP == {q \in FullPos(cs, i-1) : cs[q].k = "fc"}
  IN CASE c.k = "sc" ->
            LET S == {q \in FP : cs[q].rv = c.rv}
                R == {Rep(cs, q) : q \in S}
                T == {Rep(cs, q) : q \in {x \in S : c.ag # NoName /\ c.ag \in Names(cs[x])}}
            IN IF Cardinality(R) = 1 THEN R ELSE IF Cardinality(T) = 1 THEN T ELSE {}
       [] c.k = "su" ->
            LET T == {Rep(cs, q) : q \in {x \in FP : c.ag # NoName /\ c.ag \in Names(cs[x])}}
            IN IF Cardinality(T) = 1 THEN T ELSE {}
       [] c.k = "rf" ->
            LET T == {Rep(cs, q) : q \in {x \in FP : cs[x].pl \in c.nm \/ cs[x].df \in c.nm}}
            IN IF Cardinality(T) = 1 THEN T ELSE {}
       [] c.k = "id" ->
            IF i = 1 \/ GroupOf(g, i-1) = 0 THEN {}
            ELSE LET h == g[GroupOf(g, i-1)].m[1] IN       \* head of the predecessor's group
                 IF h < 1 \/ ~IsFull(cs[h]) THEN {}
                 ELSE IF cs[h].pg = NoPage THEN {}              \* placeholder-page antecedent
                 ELSE IF c.pin = NoPin \/ cs[h].pg \in {NoGroup, NonNumeric} THEN {Rep(cs, h)}
                 ELSE IF c.pin = BadPin THEN {}
                 ELSE IF cs[h].pg \in {Big, Huge} THEN {}           \* the pin cite lies before the first page
                 ELSE IF c.pin < cs[h].pg \/ c.pin > cs[h].pg + M THEN {}
                 ELSE {Rep(cs, h)}
       [] OTHER -> {}

Members(g)  == UNION {ToSet(g[j].m) : j \in DOMAIN g}
RestrictTo(g, k) ==       \* restriction of a resolution to the first k input positions
    LET cut == [j \in DOMAIN g |-> SelectSeq(g[j].m, LAMBDA x : x <= k)]
    IN  SelectSeq(cut, LAMBDA s : s # <<>>)
MembersOnly(g) == [j \in DOMAIN g |-> g[j].m]
(* resource keys compared up to resource equality: the representative of the
   key's citation (0 when the key does not wrap an input citation) *)
KeyReps(cs, g) == [j \in DOMAIN g |-> IF g[j].key \in DOMAIN cs /\ IsFull(cs[g[j].key])
                                       THEN Rep(cs, g[j].key) ELSE 0]
NonEmptyIdx(g, k) == SelectSeq([j \in DOMAIN g |-> j],
                               LAMBDA j : SelectSeq(g[j].m, LAMBDA x : x <= k) # <<>>)
Increasing(s)  == \A a, b \in DOMAIN s : a < b => s[a] < s[b]

(* ---------- the monitors: one named clause per sentence of the property --- *)
ClauseSeq == <<"C04.noraise", "C06.sameobjects", "C06.disjoint", "C06.order", "C06.headfull", "C06.fullonce", "C06.shareiff", "C06.unknown", "C07.neverguess", "C07.idpredecessor", "C08.prefix", "C08.backwards">>
Clauses == {ClauseSeq[ci] : ci \in DOMAIN ClauseSeq}
ASSUME PrintT(<<"CLAUSES", ToJson(ClauseSeq)>>)

Holds(cl, t) ==
  LET cs == C(t)  g == G(t)  n == Len(cs)  r == Traces[t].r IN
  IF r # "" THEN cl # "C04.noraise"          \* nothing else to judge when the call raised
  ELSE CASE cl = "C04.noraise"    -> TRUE
    [] cl = "C06.sameobjects" -> \A j \in DOMAIN g : \A x \in ToSet(g[j].m) : x \in 1..n
    [] cl = "C06.disjoint"    -> /\ \A j \in DOMAIN g : Cardinality(ToSet(g[j].m)) = Len(g[j].m)
                                 /\ \A j1, j2 \in DOMAIN g : j1 # j2 =>
                                        ToSet(g[j1].m) \cap ToSet(g[j2].m) = {}
    [] cl = "C06.order"       -> \A j \in DOMAIN g : Increasing(g[j].m)
    [] cl = "C06.headfull"    -> \A j \in DOMAIN g : /\ g[j].m # <<>>
                                                     /\ g[j].m[1] \in 1..n => IsFull(cs[g[j].m[1]])
    [] cl = "C06.fullonce"    -> \A q \in FullPos(cs, n) :
                                    Cardinality({j \in DOMAIN g : q \in ToSet(g[j].m)}) = 1
    [] cl = "C06.shareiff"    -> \A q1, q2 \in FullPos(cs, n) :
                                    (q1 < q2 /\ GroupOf(g, q1) # 0 /\ GroupOf(g, q2) # 0
                                      \* placeholder-page journal pairs: not judged (DESIGN C16 reading)
                                      /\ ~(cs[q1].k = "fj" /\ cs[q1].pg = NoPage))
                                    => ((GroupOf(g, q1) = GroupOf(g, q2)) <=> EqFull(cs[q1], cs[q2]))
    [] cl = "C06.unknown"     -> \A q \in 1..n : cs[q].k = "un" => q \notin Members(g)
    [] cl = "C07.neverguess"  -> \A q \in 1..n : (~IsFull(cs[q]) /\ cs[q].k # "rx" /\ GroupOf(g, q) # 0) =>
                                    LET h == g[GroupOf(g, q)].m[1] IN
                                    (h \in 1..n /\ IsFull(cs[h])) => Cands(cs, g, q) = {Rep(cs, h)}
    [] cl = "C07.idpredecessor" -> \A q \in 1..n : (cs[q].k = "id" /\ GroupOf(g, q) # 0) =>
                                    (q > 1 /\ GroupOf(g, q-1) = GroupOf(g, q))
    [] cl = "C08.prefix"      -> \A k \in 0..(n-1) :
                                    /\ MembersOnly(Traces[t].pre[k+1]) = RestrictTo(g, k)
                                    /\ KeyReps(cs, Traces[t].pre[k+1])
                                         = [x \in DOMAIN NonEmptyIdx(g, k) |-> KeyReps(cs, g)[NonEmptyIdx(g, k)[x]]]
    [] cl = "C08.backwards"   -> \A q \in 1..n : (~IsFull(cs[q]) /\ GroupOf(g, q) # 0) =>
                                    /\ g[GroupOf(g, q)].m[1] < q
                                    \* the resource itself was introduced by an earlier full citation
                                    /\ g[GroupOf(g, q)].key \in DOMAIN cs => g[GroupOf(g, q)].key < q
    [] OTHER -> FALSE

-----------------------------------------------------------------------------
(* ---------- conformance: the model stepped along the recorded input ------- *)
ObsRaised(t)  == IF Traces[t].r = "" THEN "none"
                 ELSE SubSeq(Traces[t].r, 1, 14)     \* "AttributeError" has 14 characters

TInit == /\ Init /\ tid = 0 /\ l = 0 /\ hidx = <<>> /\ bucket \in 0..(NB - 1)
Pick  == /\ tid = 0
         /\ \E t \in {x \in 1..NT : x % NB = bucket} : tid' = t
         /\ l' = 1 /\ UNCHANGED <<vars, hidx, bucket>>
ObsHead(t, i) == LET j == GroupOf(G(t), i) IN IF j = 0 THEN 0 ELSE G(t)[j].m[1]
(* a reference citation extracted from a document ("rx") is not modelled: its logged outcome is
   bound to the model's variables (the unlogged rest is unchanged), as for an event whose action the
   specification leaves open *)
ObsRes(t, i) == LET h == ObsHead(t, i) IN
                IF h = 0 \/ ~(\E r \in DOMAIN hidx : hidx[r] = h) THEN NoRes
                ELSE CHOOSE r \in DOMAIN hidx : hidx[r] = h
StepOrBind(c, i) == IF c.k = "rx"
                    THEN /\ err = "none" /\ cur' = c /\ joined' = ObsRes(tid, i) /\ last' = ObsRes(tid, i)
                         /\ err' = "none" /\ UNCHANGED <<fulls, nph>>
                    ELSE Step(c)
TStep == /\ tid # 0 /\ l <= Len(Traces[tid].p)
         /\ StepOrBind(C(tid)[l], l)
         /\ l' = l + 1
         /\ hidx' = IF IsFull(C(tid)[l]) /\ joined' \notin DOMAIN hidx
                    THEN hidx @@ (joined' :> l) ELSE hidx
         /\ UNCHANGED <<tid, bucket>>
TNext == Pick \/ TStep
TSpec == TInit /\ [][TNext]_tvars

ModelHead == IF joined = NoRes THEN 0 ELSE hidx[joined]

(* non-vacuity of each clause on trace t (Hits.tla) *)
Exercised(cl, t) ==
  LET cs == C(t)  g == G(t)  n == Len(cs) IN
  IF cl = "C04.noraise" THEN TRUE
  ELSE IF Traces[t].r # "" THEN FALSE
  ELSE CASE cl \in {"C06.sameobjects", "C06.headfull"} -> Len(g) >= 1
    [] cl = "C06.disjoint"  -> Len(g) >= 2
    [] cl = "C06.order"     -> \E j \in DOMAIN g : Len(g[j].m) >= 2
    [] cl = "C06.fullonce"  -> FullPos(cs, n) # {}
    [] cl = "C06.shareiff"  -> \* both directions: an equal pair and an unequal pair of full citations
                               /\ \E q1, q2 \in FullPos(cs, n) : q1 < q2 /\ EqFull(cs[q1], cs[q2])
                               /\ \E q1, q2 \in FullPos(cs, n) : q1 < q2 /\ ~EqFull(cs[q1], cs[q2])
    [] cl = "C06.unknown"   -> \E q \in 1..n : cs[q].k = "un"
    [] cl = "C07.neverguess" -> \E q \in 1..n : ~IsFull(cs[q]) /\ cs[q].k # "rx" /\ GroupOf(g, q) # 0
    [] cl = "C07.idpredecessor" -> \E q \in 1..n : cs[q].k = "id" /\ GroupOf(g, q) # 0
    [] cl = "C08.prefix"    -> n >= 2 /\ Len(g) >= 1
    [] cl = "C08.backwards" -> \E q \in 1..n : ~IsFull(cs[q]) /\ GroupOf(g, q) # 0
    [] OTHER -> FALSE
(* evaluated in every state; always TRUE, reports by printing (total monitor) *)
Judge == (tid # 0 /\ l = 1) => (/\ \A cl \in Clauses : Holds(cl, tid) \/ PrintT(<<"FAIL", tid, cl>>)
   /\ PrintT(<<"HIT", tid, Mask([ci \in DOMAIN ClauseSeq |-> Exercised(ClauseSeq[ci], tid)])>>))
Conform ==
    /\ (tid # 0 /\ l > 1 /\ err = "none" /\ Traces[tid].r = "") =>
          (ModelHead = ObsHead(tid, l-1) \/ PrintT(<<"DRIFT", tid, l-1, ModelHead, ObsHead(tid, l-1)>>))
    /\ (tid # 0 /\ l > 1 /\ err # "none") =>
          (Traces[tid].r # "" \/ PrintT(<<"DRIFT", tid, l-1, "model-raises", err>>))
    /\ (tid # 0 /\ l = Len(Traces[tid].p) + 1 /\ err = "none") =>
          (Traces[tid].r = "" \/ PrintT(<<"DRIFT", tid, l-1, "impl-raises", Traces[tid].r>>))
Done == (tid # 0 /\ l = Len(Traces[tid].p) + 1) => PrintT(<<"DONE", tid>>)
=============================================================================
