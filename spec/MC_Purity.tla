----------------------------- MODULE MC_Purity -----------------------------
EXTENDS Purity, Json
MatchDef == [t \in {"A", "B", "C"} |-> CASE t = "A" -> {1, 2} [] t = "B" -> {2, 3} [] OTHER -> {1, 2, 3}]
TieDef   == [t \in {"A", "B", "C"} |-> CASE t = "C" -> {1, 3} [] OTHER -> {}]
MergeDef == [t \in {"A", "B", "C"} |-> CASE t = "B" -> {2, 3} [] OTHER -> {}]
(* binding (B): call-level histories.  `sched` records call starts and finishes; it is a
   history variable, so this instance is only used with small constants. *)
VARIABLE sched
HInit == Init /\ sched = <<>> /\ ((~SetOrder /\ ~EdSetOrder) => perm = ListOrder)
HNext == \E th \in Threads :
           \/ (Call(th) /\ sched' = Append(sched, <<"call", th, txt'[th]>>))
           \/ ((Select(th) \/ Compile(th) \/ Match(th)) /\ UNCHANGED sched)
           \/ (Finish(th) /\ sched' = Append(sched, <<"ret", th, txt[th]>>))
HSpec == HInit /\ [][HNext]_<<vars, sched>>
EmitDone == (ncalls = MaxCalls /\ \A th \in Threads : pc[th] = "idle") => PrintT(<<"H", ToJson(sched)>>)
=============================================================================
