----------------------------- MODULE RegexIncl -----------------------------
(***************************************************************************)
(* C13 (ii): for every extractor, every string its pattern matches contains *)
(* (after the filter's case fold) one of the literal strings the            *)
(* Aho-Corasick pre-filter associates with it:                              *)
(*         L(pattern)  is a subset of  Sigma* . literals . Sigma*           *)
(* decided by reachability in the product of                                *)
(*   - the epsilon-free NFA of the pattern (harness/regex2nfa.py from       *)
(*     Python's own parse; edges labelled with the fold image the filter    *)
(*     sees: a sequence of literal-alphabet symbols, 0 = any other char)    *)
(*   - the Aho-Corasick automaton of the literals (state 1 = root).         *)
(* One initial state per extractor; the invariant is total: a violating     *)
(* product state prints <<"CEX", extractor>> and exploration continues.     *)
(***************************************************************************)
EXTENDS Integers, Sequences, Json, IOUtils, TLC

Ext == JsonDeserialize(IOEnv.NFA_FILE).ext
VARIABLES x,    \* extractor
          q,    \* NFA state
          s,    \* Aho-Corasick state: longest suffix of the folded text that is a literal prefix
          hit   \* the folded text read so far contains a literal
vars == <<x, q, s, hit>>

Checked(e) == ~e.nofilter /\ e.unsupported = ""
(* one Aho-Corasick step; symbol 0 is a character outside the literal alphabet: back to the root *)
AcStep(e, st, sym) == IF sym = 0 THEN 1 ELSE e.acnext[st][sym]
RECURSIVE Feed(_, _, _, _, _)
Feed(e, st, h, syms, k) ==
    IF k > Len(syms) THEN <<st, h>>
    ELSE LET st2 == AcStep(e, st, syms[k]) IN Feed(e, st2, h \/ e.achit[st2], syms, k + 1)

Init == /\ x \in {y \in 1..Len(Ext) : Checked(Ext[y])}
        /\ q = Ext[x].init /\ s = 1 /\ hit = FALSE
Next == /\ \E k \in 1..Len(Ext[x].out[q]) :
             LET edge == Ext[x].out[q][k]
                 r == Feed(Ext[x], s, hit, edge[1], 1) IN
             /\ q' = edge[2] /\ s' = r[1] /\ hit' = r[2]
        /\ UNCHANGED x
Spec == Init /\ [][Next]_vars

Accepting == q \in {Ext[x].final[k] : k \in DOMAIN Ext[x].final}
Inclusion == (Accepting /\ ~hit) => PrintT(<<"CEX", x>>)
(* vacuity guard: every checked extractor has an accepting product state that is reached *)
Witnessed == (Accepting /\ hit) => PrintT(<<"ACC", x>>)
=============================================================================
