SPECIFICATION Spec
CONSTANTS
  FinalSortBySpan = FALSE
  DedupePrefersNonRef = FALSE
  SweepCovers = FALSE
  P = 4
  MaxNon = 3
  Focus = "none"
  MaxRef = 2
INVARIANT Sorted
INVARIANT Disjoint
INVARIANT NonRefsKept
INVARIANT Idempotent
CHECK_DEADLOCK FALSE
