--------------------------- MODULE Trace_Annotate ---------------------------
(***************************************************************************)
(* Recorded results of the real annotate_citations judged by TLC:           *)
(* monitors C09 / C10 / C11 on the returned string (split into items at the *)
(* inserted strings), conformance with Annotate.tla for token-built cases.  *)
(***************************************************************************)
EXTENDS Annotate, Json, IOUtils, Hits

Traces == JsonDeserialize(IOEnv.TRACE_FILE)
NT == Len(Traces)
VARIABLES tid, bucket
tvars == <<vars, tid, bucket>>
NB == 64
T(t) == Traces[t]

RECURSIVE FlatS(_, _)
FlatS(its, x) == IF x > Len(its) THEN <<>>
                 ELSE (IF its[x].k = "s" THEN its[x].t ELSE <<>>) \o FlatS(its, x + 1)
RECURSIVE LenBeforeItem(_, _)
LenBeforeItem(its, x) == IF x <= 1 THEN 0
                         ELSE LenBeforeItem(its, x - 1) + (IF its[x-1].k = "s" THEN Len(its[x-1].t) ELSE 0)
(* offsets (0-based) in the target of the plain characters: the characters of the target
   that occur in the plain text at all.  The forced-alignment premise of C10 ("inserted
   material whose characters do not occur in the plain text") holds iff picking exactly
   those characters out of the target gives back the plain text. *)
PlainChars(tr) == {tr.plain[y] : y \in DOMAIN tr.plain}
(* (LET-bound values are computed once per evaluation: the set of plain characters and the position
   list are each built once per trace and clause, not once per character / annotation) *)
PlainPos(tr) == IF tr.hasSrc
                THEN LET pcs == PlainChars(tr) IN
                     SelectSeq([y \in 1..Len(tr.target) |-> y - 1], LAMBDA p : tr.target[p + 1] \in pcs)
                ELSE [y \in 1..Len(tr.target) |-> y - 1]
NonOverl(tr, kk) == \A q \in 1..(kk - 1) : tr.anns[q][2] <= tr.anns[kk][1]
Judged(tr, kk)   == tr.anns[kk][1] < tr.anns[kk][2] /\ NonOverl(tr, kk)
PosOfB(its, kk)  == {x \in DOMAIN its : its[x].k = "B" /\ its[x].id = kk}
(* The premise is about the INPUT only.  (difflib's SequenceMatcher is a heuristic and can return a
   non-minimal script for plain texts with repeated lines; that makes this clause fail for
   use_dmp=False on such inputs -- recorded as an open known finding, see known_findings.json.) *)
ForcedAlignP(tr, pp) == tr.hasSrc => [y \in DOMAIN pp |-> tr.target[pp[y] + 1]] = tr.plain
ForcedAlign(tr)  == ForcedAlignP(tr, PlainPos(tr))
(* the premise of C11: the source is well-formed markup and the plain text is its text content *)
C11Domain(tr) == tr.hasSrc /\ tr.src_wf /\ tr.src_tc = tr.plain
HasTag(tr) == \E y \in DOMAIN tr.target : tr.target[y] = 60

ClauseSeq == <<"C04.noraise", "C09.additive", "C10.enclosure", "C10.order", "C11.wellformed", "C11.textcontent", "C11.wrapall">>
Clauses == {ClauseSeq[ci] : ci \in DOMAIN ClauseSeq}
ASSUME PrintT(<<"CLAUSES", ToJson(ClauseSeq)>>)
Holds(cl, t) ==
  LET tr == T(t)  its == tr.items IN
  IF tr.raised # "" THEN cl # "C04.noraise"
  ELSE CASE cl = "C04.noraise"  -> TRUE
    [] cl = "C09.additive" -> FlatS(its, 1) = tr.target
    [] cl = "C10.enclosure" ->
         LET pp == PlainPos(tr) IN
         (~tr.oversize /\ ForcedAlignP(tr, pp) /\ (tr.mode = "unchecked" \/ ~HasTag(tr))) =>
           \A kk \in DOMAIN tr.anns : Judged(tr, kk) =>
             LET a  == pp[tr.anns[kk][1] + 1]
                 b  == pp[tr.anns[kk][2]] + 1
             IN /\ Cardinality(PosOfB(its, kk)) = 1
                /\ LET x == CHOOSE x \in PosOfB(its, kk) : TRUE IN
                   /\ x + 2 <= Len(its)
                   /\ its[x+1].k = "s" /\ its[x+1].t = SubSeq(tr.target, a + 1, b)
                   /\ its[x+2].k = "A"
                   /\ LenBeforeItem(its, x) = a
    [] cl = "C10.order" -> tr.oversize \/ \A x, y \in DOMAIN its :
                              (x < y /\ its[x].k = "B" /\ its[y].k = "B") => its[x].id <= its[y].id
    [] cl = "C11.wellformed"  -> (C11Domain(tr) /\ tr.mode \in {"skip", "wrap"}) => tr.wf
    [] cl = "C11.textcontent" -> (C11Domain(tr) /\ tr.mode \in {"skip", "wrap"} /\ tr.wf) => tr.tc = tr.plain
    [] cl = "C11.wrapall" -> (~tr.oversize /\ C11Domain(tr) /\ tr.mode = "wrap") =>
                                \A kk \in DOMAIN tr.anns : Judged(tr, kk) => PosOfB(its, kk) # {}
    [] OTHER -> FALSE

(* conformance: the model run on the recorded token text *)
RECURSIVE Merge(_, _)       \* model items -> <<kind, id, length>> with adjacent slices merged
Merge(o, x) ==
  IF x > Len(o) THEN <<>>
  ELSE IF o[x][1] = "s"
       THEN LET rest == Merge(o, x + 1) IN
            IF rest # <<>> /\ rest[1][1] = "s"
            THEN <<<<"s", 0, rest[1][3] + o[x][3] - o[x][2]>>>> \o Tail(rest)
            ELSE <<<<"s", 0, o[x][3] - o[x][2]>>>> \o rest
       ELSE <<<<o[x][1], IF o[x][1] = "B" THEN o[x][2] ELSE 0, 0>>>> \o Merge(o, x + 1)
ObsItems(t) == [x \in DOMAIN T(t).items |-> <<T(t).items[x].k, T(t).items[x].id, Len(T(t).items[x].t)>>]

TInit == /\ tid = 0 /\ bucket \in 0..(NB - 1)
         /\ src = <<>> /\ hasSrc = FALSE /\ mode = "" /\ anns = <<>>
         /\ pc = "pick" /\ k = 1 /\ lastEnd = 0 /\ out = <<>> /\ err = "none"
Pick  == /\ tid = 0
         /\ \E t \in {x \in 1..NT : x % NB = bucket} :
              /\ tid' = t
              /\ src' = T(t).src /\ hasSrc' = T(t).hasSrc /\ mode' = T(t).mode
              /\ anns' = [x \in DOMAIN T(t).anns |-> <<T(t).anns[x][1], T(t).anns[x][2]>>]
         /\ pc' = "loop" /\ UNCHANGED <<k, lastEnd, out, err, bucket>>
TNext == Pick \/ ((LoopStep \/ Finish) /\ UNCHANGED <<tid, bucket>>)
TSpec == TInit /\ [][TNext]_tvars

(* non-vacuity of each clause on trace t (Hits.tla) *)
Exercised(cl, t) ==
  LET tr == T(t)  its == tr.items
      nB == Cardinality({x \in DOMAIN its : its[x].k = "B"}) IN
  IF cl = "C04.noraise" THEN TRUE
  ELSE IF tr.raised # "" THEN FALSE
  ELSE CASE cl = "C09.additive"  -> nB >= 1
    [] cl = "C10.enclosure" -> /\ tr.hasSrc /\ ForcedAlign(tr) /\ (tr.mode = "unchecked" \/ ~HasTag(tr))
                               /\ \E kk \in DOMAIN tr.anns : Judged(tr, kk)
    [] cl = "C10.order"     -> nB >= 2
    [] cl = "C11.wellformed"  -> C11Domain(tr) /\ tr.mode \in {"skip", "wrap"} /\ HasTag(tr) /\ tr.anns # <<>>
    [] cl = "C11.textcontent" -> C11Domain(tr) /\ tr.mode \in {"skip", "wrap"} /\ tr.wf /\ HasTag(tr) /\ tr.anns # <<>>
    [] cl = "C11.wrapall" -> C11Domain(tr) /\ tr.mode = "wrap" /\ HasTag(tr) /\ \E kk \in DOMAIN tr.anns : Judged(tr, kk)
    [] OTHER -> FALSE
Judge == (tid # 0 /\ pc = "loop" /\ k = 1) => (/\ \A cl \in Clauses : Holds(cl, tid) \/ PrintT(<<"FAIL", tid, cl>>)
   /\ PrintT(<<"HIT", tid, Mask([ci \in DOMAIN ClauseSeq |-> Exercised(ClauseSeq[ci], tid)])>>))
Conform == (tid # 0 /\ pc = "done" /\ T(tid).src # <<>> /\ T(tid).raised = "" /\ ~T(tid).oversize) =>
              (Merge(out, 1) = ObsItems(tid) \/ PrintT(<<"DRIFT", tid>>))
Done == (tid # 0 /\ (pc = "done" \/ err # "none")) => PrintT(<<"DONE", tid>>)
=============================================================================
