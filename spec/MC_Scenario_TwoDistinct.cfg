SPECIFICATION SSpec
CONSTANTS
  M = 150
  HugeFix = TRUE
  MaxPh = 0
  Alphabet = {}
  Cases <- TwoDistinct
  MaxItems = 5
INVARIANT Intended
INVARIANT OnePerCase
INVARIANT NoRaise
INVARIANT EmitScenario
CHECK_DEADLOCK FALSE
