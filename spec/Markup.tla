------------------------------- MODULE Markup -------------------------------
(***************************************************************************)
(* Markup mode: models.Document.__post_init__ (cleaned text + the two       *)
(* offset translators) and find.find_reference_citations_from_markup as     *)
(* offset arithmetic.                                                       *)
(* The markup is a token sequence [c, n]:                                   *)
(*   "t"  other text, "nm" an occurrence of the party name, "pu" punctuation *)
(*   or whitespace that the reference regex allows before the closing tag,   *)
(*   "oi" / "ci" opening / closing <i> or <em> (n = 3 / 4 or 4 / 5),         *)
(*   "ot" / "ct" any other tag (dropped by the html cleaner as well).        *)
(* The cleaned plain text is the markup without tags (html cleaner), so the  *)
(* minimal diff markup -> plain is "=" per text token and "-" per tag.       *)
(* A reference is found where the markup reads  oi nm pu* ci ; its span in   *)
(* the plain text is obtained by translating the offsets of the name with    *)
(* bisect_left (start) and bisect_right (end), as the code does.             *)
(***************************************************************************)
EXTENDS SpanUpdater, TLC

IsTag(c) == c \in {"oi", "ci", "ot", "ct"}
MOff(m, j) == LET F[k \in 0..Len(m)] == IF k = 0 THEN 0 ELSE F[k-1] + m[k].n IN F[j-1]      \* markup offset of token j
POff(m, j) == LET F[k \in 0..Len(m)] == IF k = 0 THEN 0
                   ELSE F[k-1] + (IF IsTag(m[k].c) THEN 0 ELSE m[k].n) IN F[j-1]           \* plain offset of token j
PlainLen(m) == POff(m, Len(m) + 1)
ToPlainScript(m) == [j \in DOMAIN m |-> [op |-> IF IsTag(m[j].c) THEN "-" ELSE "=", n |-> m[j].n]]

(* positions j where the markup reads  <i> name punct* </i>  *)
RefAt(m, j) == /\ j + 2 <= Len(m) /\ m[j].c = "oi" /\ m[j+1].c = "nm"
               /\ \E k \in (j+2)..Len(m) : m[k].c = "ci" /\ \A x \in (j+2)..(k-1) : m[x].c = "pu"
CloseOf(m, j) == CHOOSE k \in (j+2)..Len(m) : m[k].c = "ci" /\ \A x \in (j+2)..(k-1) : m[x].c = "pu"

(* the plain-text span the code computes for the reference found at j *)
RefSpan(m, j) ==
    LET rs == Ranges(ToPlainScript(m))
        a == MOff(m, j + 1)                    \* match.start(1): start of the name in the markup
        b == MOff(m, j + 2)                    \* match.end(1)
    IN <<Upd(rs, a, "left")[1], Upd(rs, b, "right")[1]>>
RefFullSpan(m, j) ==
    LET rs == Ranges(ToPlainScript(m))
    IN <<Upd(rs, MOff(m, j), "left")[1], Upd(rs, MOff(m, CloseOf(m, j) + 1), "right")[1]>>
(* what it must be: where the name stands in the cleaned text *)
Expected(m, j) == <<POff(m, j + 1), POff(m, j + 2)>>
=============================================================================
