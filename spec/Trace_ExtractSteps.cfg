SPECIFICATION TSpec
CONSTANTS
  BackSeek = 28
  MaxMatch = 300
  PrefixFix = TRUE
  PlaintiffFix = TRUE
INVARIANT Conform
INVARIANT Done
CHECK_DEADLOCK FALSE
