SPECIFICATION HSpec
CONSTANTS
  M = 150
  HugeFix = TRUE
  MaxPh = 2
  MaxFulls = 3
  Alphabet <- AlphaKeys
CONSTRAINT Bound
ACTION_CONSTRAINT Emit
VIEW hcore
INVARIANT TypeOK
INVARIANT NoRaise
INVARIANT ShareIffEqual
PROPERTY FullJoinsOwn
PROPERTY UnknownNever
PROPERTY Grow
PROPERTY PrefixStable
PROPERTY NeverGuess
PROPERTY IdOnlyPredecessor
PROPERTY LastIsOutcome
CHECK_DEADLOCK FALSE
