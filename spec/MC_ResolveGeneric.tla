------------------------- MODULE MC_ResolveGeneric -------------------------
EXTENDS ResolveGeneric, Json
(* one line per complete input: replayed through the real resolve_citations with table-driven callbacks *)
Emit == phase = "done" => PrintT(<<"G", ToJson([k |-> kinds, o |-> outs])>>)
=============================================================================
