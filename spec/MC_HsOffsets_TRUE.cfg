SPECIFICATION Spec
CONSTANTS
  Widen = TRUE
  MaxLen = 5
INVARIANT NoneLost
INVARIANT AllGenuine
CHECK_DEADLOCK FALSE
