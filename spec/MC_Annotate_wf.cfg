SPECIFICATION Spec
CONSTANTS
  ClampIndex = TRUE
  EmptySpanClamp = TRUE
  SkipReclip = TRUE
  EmptySourceFix = TRUE
  Tol = 10
  MaxToks = 8
  MaxAnns = 1
  WfOnly = TRUE
  Modes <- TagModes
  TokSet <- ToksWf
INVARIANT NoRaise
INVARIANT Additive
INVARIANT WellFormedOut
INVARIANT ExactEnclosure
INVARIANT InOrder
INVARIANT WrapKeepsAll
INVARIANT EmitDone
CHECK_DEADLOCK FALSE
