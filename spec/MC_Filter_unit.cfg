SPECIFICATION Spec
CONSTANTS
  FinalSortBySpan = TRUE
  DedupePrefersNonRef = TRUE
  SweepCovers = TRUE
  P = 4
  MaxNon = 3
  Focus = "unit"
  MaxRef = 2
INVARIANT Sorted
INVARIANT Disjoint
INVARIANT NonRefsKept
INVARIANT Idempotent
INVARIANT EmitDeep
CHECK_DEADLOCK FALSE
