SPECIFICATION Spec
CONSTANTS
  CatchAll = TRUE
  MaxFaults = 2
CONSTRAINT Bound
INVARIANT NeverRaises
INVARIANT ReadyIsUsable
PROPERTY LoadedOnlyIntact
INVARIANT Emit
CHECK_DEADLOCK FALSE
