SPECIFICATION Spec
CONSTANTS
  MaxLen = 8
  MaxDoc = 8
  EmitLen = 6
INVARIANT TextLaws
INVARIANT Composition
INVARIANT VisibleSound
INVARIANT EmitText
INVARIANT EmitDoc
CHECK_DEADLOCK FALSE
