SPECIFICATION Spec
INVARIANT Inclusion
CHECK_DEADLOCK FALSE
