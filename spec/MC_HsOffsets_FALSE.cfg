SPECIFICATION Spec
CONSTANTS
  Widen = FALSE
  MaxLen = 5
INVARIANT NoneLost
INVARIANT AllGenuine
CHECK_DEADLOCK FALSE
