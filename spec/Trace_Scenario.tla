--------------------------- MODULE Trace_Scenario ---------------------------
(* C05 on running text: a Scenario.tla scenario rendered into ONE document, extracted and resolved.
   Per scenario item: kind, case (what it was written to refer to), unamb, out (must be left out),
   extracted (exactly one citation of the expected class was found in its sentence), group (index of
   the resource it is listed under, 0 = none). *)
EXTENDS Integers, Sequences, FiniteSets, Json, IOUtils, TLC, Hits
Traces == JsonDeserialize(IOEnv.TRACE_FILE)
NT == Len(Traces)
VARIABLES tid, bucket
NB == 64
T(t) == Traces[t]
AllExtracted(tr) == \A k \in DOMAIN tr.items : tr.items[k].extracted
FirstFull(tr, c) == CHOOSE k \in DOMAIN tr.items : tr.items[k].kind = "full" /\ tr.items[k].case = c
                        /\ \A j \in 1..(k-1) : ~(tr.items[j].kind = "full" /\ tr.items[j].case = c)
CasesCited(tr) == {tr.items[k].case : k \in {j \in DOMAIN tr.items : tr.items[j].kind = "full"}}
ClauseSeq == <<"C04.noraise", "C05.onepercase", "C05.unambiguous", "C05.leftout">>
Clauses == {ClauseSeq[ci] : ci \in DOMAIN ClauseSeq}
ASSUME PrintT(<<"CLAUSES", ToJson(ClauseSeq)>>)
Holds(cl, t) ==
  LET tr == T(t) IN
  IF tr.raised # "" THEN cl # "C04.noraise"
  ELSE IF ~AllExtracted(tr) THEN TRUE          \* not a document of the stated form: not judged (counted)
  ELSE CASE cl = "C05.onepercase" ->
              /\ \A k \in DOMAIN tr.items : tr.items[k].kind = "full" =>
                     (tr.items[k].group # 0 /\ tr.items[k].group = tr.items[FirstFull(tr, tr.items[k].case)].group)
              /\ \A c1, c2 \in CasesCited(tr) : c1 # c2 =>
                     tr.items[FirstFull(tr, c1)].group # tr.items[FirstFull(tr, c2)].group
              /\ tr.ngroups = Cardinality(CasesCited(tr))
    [] cl = "C05.unambiguous" -> \A k \in DOMAIN tr.items :
              (tr.items[k].unamb /\ tr.items[k].kind # "full") =>
                  tr.items[k].group = tr.items[FirstFull(tr, tr.items[k].case)].group
    [] cl = "C05.leftout" -> \A k \in DOMAIN tr.items : tr.items[k].out => tr.items[k].group = 0
    [] OTHER -> TRUE
TInit == tid = 0 /\ bucket \in 0..(NB - 1)
TNext == tid = 0 /\ (\E t \in {x \in 1..NT : x % NB = bucket} : tid' = t) /\ UNCHANGED bucket
TSpec == TInit /\ [][TNext]_<<tid, bucket>>
Exercised(cl, t) ==
  LET tr == T(t) IN
  IF cl = "C04.noraise" THEN TRUE
  ELSE IF tr.raised # "" \/ ~AllExtracted(tr) THEN FALSE
  ELSE CASE cl = "C05.onepercase" -> Cardinality(CasesCited(tr)) >= 2
    [] cl = "C05.unambiguous" -> \E k \in DOMAIN tr.items : tr.items[k].unamb /\ tr.items[k].kind # "full"
    [] cl = "C05.leftout" -> \E k \in DOMAIN tr.items : tr.items[k].out
    [] OTHER -> FALSE
Judge == tid # 0 => (/\ \A cl \in Clauses : Holds(cl, tid) \/ PrintT(<<"FAIL", tid, cl>>)
   /\ PrintT(<<"HIT", tid, Mask([ci \in DOMAIN ClauseSeq |-> Exercised(ClauseSeq[ci], tid)])>>))
NotJudged == (tid # 0 /\ T(tid).raised = "" /\ ~AllExtracted(T(tid))) => PrintT(<<"DRIFT", tid>>)
Done == tid # 0 => PrintT(<<"DONE", tid>>)
=============================================================================
