------------------------------ MODULE MC_Clean ------------------------------
(* every text up to MaxLen over the six classes, every step list up to 3;
   every nested document up to MaxDoc tokens *)
EXTENDS Clean, Json
CONSTANTS MaxLen, MaxDoc, EmitLen
VARIABLES t, doc, phase
vars == <<t, doc, phase>>

StepLists(n) == UNION {[1..m -> StepNames \cup {"bogus", "@rev"}] : m \in 0..n}

Tags == {"div", "p", "i", "script", "style", "head"}
RawText == {"script", "style"}
RECURSIVE Stack(_, _, _)
Stack(d, x, st) == IF x > Len(d) THEN st
                   ELSE IF d[x].k = "open" THEN Stack(d, x + 1, Append(st, d[x].tag))
                   ELSE IF d[x].k = "close" THEN Stack(d, x + 1, Front(st))
                   ELSE Stack(d, x + 1, st)
NextId(d) == Cardinality({x \in DOMAIN d : d[x].k = "text"}) + 1

Init == t = <<>> /\ doc = <<>> /\ phase \in {"text", "doc"}
AddChar == /\ phase = "text" /\ Len(t) < MaxLen
           /\ \E c \in Classes : t' = Append(t, c)
           /\ UNCHANGED <<doc, phase>>
AddTok == /\ phase = "doc" /\ Len(doc) < MaxDoc
          /\ LET st == Stack(doc, 1, <<>>)
                 room == MaxDoc - Len(doc) - 1          \* tokens left after this one
                 top == IF st = <<>> THEN "" ELSE st[Len(st)] IN
             \E tok \in {[k |-> "open", tag |-> g, id |-> 0, blank |-> FALSE] : g \in Tags}
                   \cup {[k |-> "close", tag |-> top, id |-> 0, blank |-> FALSE]}
                   \cup {[k |-> "void", tag |-> "link", id |-> 0, blank |-> FALSE]}
                   \cup {[k |-> "text", tag |-> "", id |-> NextId(doc), blank |-> b] : b \in BOOLEAN} :
                /\ (tok.k = "close" => st # <<>>)
                \* HTML content model: no block element (div, p) inside p or i -- the HTML parser
                \* re-parents such markup and adjacent text nodes merge (outside the generated domain)
                /\ (tok.k = "open" /\ tok.tag \in {"div", "p"} =>
                        \A y \in DOMAIN st : st[y] \notin {"p", "i"})
                \* <head> only as the first element; it holds only style / script / link / blank text
                /\ (tok.k = "open" /\ tok.tag = "head" => doc = <<>>)
                /\ (top = "head" => \/ tok.k \in {"close", "void"}
                                    \/ (tok.k = "open" /\ tok.tag \in RawText)
                                    \/ (tok.k = "text" /\ tok.blank))
                /\ (tok.k = "open" => (top \notin RawText /\ Len(st) + 1 <= room))
                /\ (tok.k = "void" => (top \notin RawText /\ Len(st) <= room))
                /\ (tok.k = "text" => (Len(st) <= room
                                        \* two adjacent text tokens would be one text node
                                        /\ (doc # <<>> => doc[Len(doc)].k # "text")))
                /\ doc' = Append(doc, tok)
          /\ UNCHANGED <<t, phase>>
Next == AddChar \/ AddTok
Spec == Init /\ [][Next]_vars

TextLaws == phase = "text" => (Idempotent(t) /\ NoRunLeft(t) /\ OthersKept(t))
Composition == (phase = "text" /\ Len(t) <= 5) =>
                  \A s1 \in StepLists(2), s2 \in StepLists(1) : Composes(t, s1, s2)
(* Visible is a subsequence of the text ids, in order, and contains no hidden / blank text *)
DocComplete(d) == Stack(d, 1, <<>>) = <<>> /\ \E x \in DOMAIN d : d[x].k \in {"open", "void"}
VisibleSound == phase = "doc" =>
                  \A x \in DOMAIN Visible(doc) : \A y \in DOMAIN Visible(doc) :
                        x < y => Visible(doc)[x] < Visible(doc)[y]

EmitText == (phase = "text" /\ Len(t) <= EmitLen) => PrintT(<<"T", t>>)
EmitDoc  == (phase = "doc" /\ DocComplete(doc)) =>
               PrintT(<<"D", ToJson([doc |-> doc, vis |-> Visible(doc)])>>)
=============================================================================
