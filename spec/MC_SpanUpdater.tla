--------------------------- MODULE MC_SpanUpdater ---------------------------
(* C10, third clause: for every edit script the translation of offsets is
   monotone and stays within the target text; never raises. *)
EXTENDS SpanUpdater, TLC
CONSTANTS MaxOps, MaxN
VARIABLES sc
Ops == {"=", "+", "-"}
Init == sc = <<>>
(* normalised scripts: no two adjacent operations of the same kind *)
Next == /\ Len(sc) < MaxOps
        /\ \E op \in Ops, n \in 1..MaxN :
              /\ (sc # <<>> => sc[Len(sc)].op # op)
              /\ sc' = Append(sc, [op |-> op, n |-> n])
Spec == Init /\ [][Next]_sc
RS == Ranges(sc)
NoRaise  == \A x \in 0..LenBefore(sc), side \in {"left", "right"} : Upd(RS, x, side)[2] = "none"
InRange  == \A x \in 0..LenBefore(sc), side \in {"left", "right"} :
               Upd(RS, x, side)[1] \in 0..LenAfter(sc)
Monotone == \A x, y \in 0..LenBefore(sc), side \in {"left", "right"} :
               x <= y => Upd(RS, x, side)[1] <= Upd(RS, y, side)[1]
StartBeforeEnd == \A x, y \in 0..LenBefore(sc) :
               x < y => Upd(RS, x, "right")[1] <= Upd(RS, y, "left")[1]
=============================================================================
