SPECIFICATION Spec
CONSTANTS
  Tokenizers = {"ref", "aho", "hs"}
  Modes = {"unchecked", "skip", "wrap"}
  MaxLen = 4
  MaxCites = 2
INVARIANT CitesWellFormed
INVARIANT ResolutionIsPartition
INVARIANT AnnotateCoversReturnedSpans
PROPERTY MergeKeepsNonRefs
CHECK_DEADLOCK FALSE
