SPECIFICATION TSpec
CONSTANTS
  Tokenizers = {"ref", "aho", "hs"}
  Modes = {"unchecked", "skip", "wrap"}
  MaxLen = 0
  MaxCites = 0
INVARIANT Raised
INVARIANT Done
INVARIANT Progress
CHECK_DEADLOCK FALSE
