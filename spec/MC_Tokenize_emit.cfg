SPECIFICATION Spec
CONSTANTS
  N = 4
  MaxCands = 3
  RewindOnPop = TRUE
  SpaceSets <- QuickSpaces4
INVARIANT Partition
INVARIANT SelfIndex
INVARIANT Increasing
INVARIANT IndexExact
INVARIANT EmitDone
CHECK_DEADLOCK FALSE
