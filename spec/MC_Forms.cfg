SPECIFICATION Spec
INVARIANT GroundTruthConsistent
INVARIANT Emit
CHECK_DEADLOCK FALSE
