------------------------------ MODULE MC_Filter ------------------------------
(* Citation lists as extraction produces them (DESIGN 4, C03 "which lists"):
   non-reference citations have pairwise disjoint, increasing, non-empty spans
   (tokens are disjoint and pin-cite windows stop at the next special token) and a
   full span that contains the span; a reference citation derives from a full case
   citation, lies after that citation's span (span = full span = the regex match),
   and is inserted BEFORE it in the list (get_citations) or appended (two-step flow);
   a reference may overlap anything else. *)
EXTENDS Filter, Json
CONSTANTS P,          \* positions 0..P
          MaxNon, MaxRef,
          Focus        \* "none"; "wide": only full case citations, full span start in {s, s-1, 0}, end in {e, P};
                       \* "unit": as "wide" and every non-reference span has length 1 (deep layouts, small instance)
VARIABLES l, phase, nid
vars == <<l, phase, nid>>

NonRefs == SelectSeq(l, LAMBDA c : c.kind # "ref")
LastNon == IF NonRefs = <<>> THEN 0 ELSE NonRefs[Len(NonRefs)].e
Count(kd) == Cardinality({k \in DOMAIN l : (l[k].kind = "ref") = kd})

Init == l = <<>> /\ phase = "build" /\ nid = 1
AddNon == /\ phase = "build" /\ Count(FALSE) < MaxNon
          /\ \E s \in 0..P, e \in 0..P, fs \in 0..P, fe \in 0..P, kd \in {"fc", "oth"} :
               /\ s < e /\ fs <= s /\ e <= fe /\ s >= LastNon
               /\ (Focus # "none" => (kd = "fc" /\ fs \in {s, s - 1, 0} /\ fe \in {e, P}))
               /\ (Focus = "unit" => e = s + 1)
               /\ l' = Append(l, [s |-> s, e |-> e, fs |-> fs, fe |-> fe, kind |-> kd, id |-> nid])
          /\ nid' = nid + 1 /\ UNCHANGED phase
(* a reference for full case citation k: after its span; inserted before it, or appended *)
AddRef == /\ phase = "build" /\ Count(TRUE) < MaxRef
          /\ \E k \in DOMAIN l, s \in 0..P, e \in 0..P, where \in {"before", "end"} :
               /\ l[k].kind = "fc" /\ l[k].e <= s /\ s < e
               /\ LET r == [s |-> s, e |-> e, fs |-> s, fe |-> e, kind |-> "ref", id |-> nid] IN
                  l' = IF where = "before" THEN SubSeq(l, 1, k - 1) \o <<r>> \o SubSeq(l, k, Len(l))
                       ELSE Append(l, r)
          /\ nid' = nid + 1 /\ UNCHANGED phase
Next == AddNon \/ AddRef
Spec == Init /\ [][Next]_vars

R == FilterCitations(l)
Sorted      == InOrder(R)
Disjoint    == NoOverlap(R)
NonRefsKept == KeepsNonRefs(l, R) /\ NothingNew(l, R)
Idempotent  == FilterCitations(R) = R
(* for simulation: only lists with at least three non-reference and two reference citations *)
EmitDeep == (Count(FALSE) >= 3 /\ Count(TRUE) >= 2) => PrintT(<<"L", ToJson([l |-> l, r |-> [k \in DOMAIN R |-> R[k].id]])>>)
Emit == PrintT(<<"L", ToJson([l |-> l, r |-> [k \in DOMAIN R |-> R[k].id]])>>)
=============================================================================
