SPECIFICATION Spec
CONSTANTS
  FinalSortBySpan = TRUE
  DedupePrefersNonRef = TRUE
  SweepCovers = TRUE
  P = 4
  MaxNon = 3
  Focus = "none"
  MaxRef = 2
INVARIANT Sorted
INVARIANT Disjoint
INVARIANT NonRefsKept
INVARIANT Idempotent
CHECK_DEADLOCK FALSE
