------------------------------ MODULE Trace_Hs ------------------------------
(* C14 on recorded executions.
   kind "cands": for a text in the stated domain, ref / hs = candidate tokens of the reference and of
     the Hyperscan tokenizer (type, offsets, groups, editions rendered as strings, sorted),
     extra_genuine = for each additional Hyperscan candidate, whether it is a genuine match of its
     pattern at those offsets in the full text; ties; cit_equal = get_citations agree (compared when
     the candidate sets coincide and there is no tie).
   kind "cache": a behaviour of HsCache.tla replayed on a real cache directory: events construct
     (raised, same = tokens equal to the tokens without a cache) and faults (load = what
     hyperscan.loadb says about the damaged file: the environment assumption of the model). *)
EXTENDS HsCache, Json, IOUtils, Hits
Traces == JsonDeserialize(IOEnv.TRACE_FILE)
NT == Len(Traces)
VARIABLES tid, bucket
NB == 64
T(t) == Traces[t]
SetOf(s) == {s[k] : k \in DOMAIN s}
ClauseSeq == <<"C04.noraise", "C14.superset", "C14.genuine", "C14.citations", "C14.cache.noraise", "C14.cache.sametokens">>
Clauses == {ClauseSeq[ci] : ci \in DOMAIN ClauseSeq}
ASSUME PrintT(<<"CLAUSES", ToJson(ClauseSeq)>>)
Holds(cl, t) ==
  LET tr == T(t) IN
  IF tr.kind = "cands" THEN
    IF tr.raised # "" THEN cl # "C04.noraise"
    ELSE CASE cl = "C14.superset"  -> SetOf(tr.ref) \subseteq SetOf(tr.hs)
           [] cl = "C14.genuine"   -> \A k \in DOMAIN tr.extra_genuine : tr.extra_genuine[k]
           [] cl = "C14.citations" -> tr.cit_equal
           [] OTHER -> TRUE
  ELSE CASE cl = "C14.cache.noraise"    -> \A k \in DOMAIN tr.events : tr.events[k].raised = ""
         [] cl = "C14.cache.sametokens" -> /\ tr.nocache_equals_reference
                                           /\ \A k \in DOMAIN tr.events : tr.events[k].same
         [] OTHER -> TRUE
TInit == /\ tid = 0 /\ bucket \in 0..(NB - 1)
         /\ file = "absent" /\ pc = "none" /\ db = "none" /\ err = "none" /\ faults = 0 /\ hist = <<>>
TNext == tid = 0 /\ (\E t \in {x \in 1..NT : x % NB = bucket} : tid' = t) /\ UNCHANGED <<vars, bucket>>
TSpec == TInit /\ [][TNext]_<<vars, tid, bucket>>
Exercised(cl, t) ==
  LET tr == T(t) IN
  IF tr.kind = "cands" THEN
    IF cl = "C04.noraise" THEN TRUE
    ELSE IF tr.raised # "" THEN FALSE
    ELSE CASE cl = "C14.superset"  -> tr.ref # <<>>
           [] cl = "C14.genuine"   -> tr.extra_genuine # <<>>
           [] cl = "C14.citations" -> tr.ref # <<>>
           [] OTHER -> FALSE
  ELSE CASE cl \in {"C14.cache.noraise", "C14.cache.sametokens"} ->          \* a construction after a fault or a crash
              \E k \in DOMAIN tr.events : tr.events[k].ev \in Faulty \cup {"crash", "foreign", "foreignorder"}
         [] OTHER -> FALSE
Judge == tid # 0 => (/\ \A cl \in Clauses : Holds(cl, tid) \/ PrintT(<<"FAIL", tid, cl>>)
   /\ PrintT(<<"HIT", tid, Mask([ci \in DOMAIN ClauseSeq |-> Exercised(ClauseSeq[ci], tid)])>>))
(* conformance: hyperscan.loadb treats each fault class the way the model's Load assumes *)
Conform == (tid # 0 /\ T(tid).kind = "cache") =>
   (\A k \in DOMAIN T(tid).events :
       LET e == T(tid).events[k] IN
       (e.ev \in Faulty \/ e.ev = "crash") =>   \* ("foreign" events carry no load outcome)
           (\/ e.load = "nofile" \/ e.load = Load(IF e.ev = "crash" THEN "prefix" ELSE e.ev)
            \* hyperscan's checksum does not cover every byte of the body: a flipped byte may be accepted;
            \* whether the accepted database still behaves the same is the monitor's business (C14.cache.sametokens)
            \/ (e.ev = "badbody" /\ e.load = "ok")))
   \/ PrintT(<<"DRIFT", tid>>)
Done == tid # 0 => PrintT(<<"DONE", tid>>)
=============================================================================
