--------------------------- MODULE Trace_Equality ---------------------------
(* C16 on recorded comparisons.  A trace is a group of extracted citations with the generator's
   ground truth per member: cls, key (what was written: volume, page, normalised reporter -- a
   string; equal keys = same document), selfonly (placeholder page / id. / unknown), found
   (the citation was extracted as written); matrices eq (==), heq (hash ==), req (Resource ==);
   rt: round trip of corrected_citation(). same_as = index of the member that is the same object. *)
EXTENDS Integers, Sequences, FiniteSets, Json, IOUtils, TLC, Hits
Traces == JsonDeserialize(IOEnv.TRACE_FILE)
NT == Len(Traces)
VARIABLES tid, bucket
NB == 64
T(t) == Traces[t]
F(tr) == {i \in DOMAIN tr.rows : tr.rows[i].found}
Expected(tr, i, j) == \/ i = j
                      \/ (/\ ~tr.rows[i].selfonly /\ ~tr.rows[j].selfonly
                          /\ tr.rows[i].cls = tr.rows[j].cls /\ tr.rows[i].key = tr.rows[j].key)
ClauseSeq == <<"C04.noraise", "C16.iff", "C16.hash", "C16.resource", "C16.equivalence", "C16.roundtrip">>
Clauses == {ClauseSeq[ci] : ci \in DOMAIN ClauseSeq}
ASSUME PrintT(<<"CLAUSES", ToJson(ClauseSeq)>>)
Holds(cl, t) ==
  LET tr == T(t) IN
  IF tr.raised # "" THEN cl # "C04.noraise"
  ELSE CASE cl = "C16.iff" -> \A i, j \in F(tr) : tr.eq[i][j] <=> Expected(tr, i, j)
    [] cl = "C16.hash"     -> \A i, j \in F(tr) : tr.eq[i][j] <=> tr.heq[i][j]
    [] cl = "C16.resource" -> \A i, j \in F(tr) : tr.eq[i][j] <=> tr.req[i][j]
    [] cl = "C16.equivalence" -> /\ \A i \in F(tr) : tr.eq[i][i]
                                 /\ \A i, j \in F(tr) : tr.eq[i][j] = tr.eq[j][i]
                                 /\ \A i, j, k \in F(tr) : (tr.eq[i][j] /\ tr.eq[j][k]) => tr.eq[i][k]
    [] cl = "C16.roundtrip" -> \A i \in F(tr) : tr.rt[i].checked => (tr.rt[i].one /\ tr.rt[i].equal /\ tr.rt[i].fixed)
    [] OTHER -> TRUE
TInit == tid = 0 /\ bucket \in 0..(NB - 1)
TNext == tid = 0 /\ (\E t \in {x \in 1..NT : x % NB = bucket} : tid' = t) /\ UNCHANGED bucket
TSpec == TInit /\ [][TNext]_<<tid, bucket>>
Exercised(cl, t) ==
  LET tr == T(t) IN
  IF cl = "C04.noraise" THEN TRUE
  ELSE IF tr.raised # "" THEN FALSE
  ELSE CASE cl \in {"C16.iff", "C16.hash", "C16.resource"} ->      \* both an equal and an unequal pair of distinct members
              /\ \E i, j \in F(tr) : i # j /\ Expected(tr, i, j)
              /\ \E i, j \in F(tr) : i # j /\ ~Expected(tr, i, j)
    [] cl = "C16.equivalence" -> \E i, j, k \in F(tr) : i # j /\ j # k /\ i # k /\ tr.eq[i][j] /\ tr.eq[j][k]
    [] cl = "C16.roundtrip" -> \E i \in F(tr) : tr.rt[i].checked
    [] OTHER -> FALSE
Judge == tid # 0 => (/\ \A cl \in Clauses : Holds(cl, tid) \/ PrintT(<<"FAIL", tid, cl>>)
   /\ PrintT(<<"HIT", tid, Mask([ci \in DOMAIN ClauseSeq |-> Exercised(ClauseSeq[ci], tid)])>>))
Done == tid # 0 => PrintT(<<"DONE", tid>>)
=============================================================================
