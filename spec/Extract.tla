------------------------------ MODULE Extract ------------------------------
(***************************************************************************)
(* The offset arithmetic of citation extraction (find._extract_*,           *)
(* helpers.extract_pin_cite, add_post_citation, add_defendant,              *)
(* add_pre_citation, match_on_tokens) over an abstract token list.          *)
(*                                                                          *)
(* words: the tokenizer's output, each [k, n, semi]: kind, length in        *)
(* characters ("w" plain word or space, "cite" citation token, "stopv" the  *)
(* stop word v., "stop" another stop word, "para" paragraph token, "oth"    *)
(* id / supra / section token).  Token offsets are cumulative lengths (the  *)
(* partition property C12).  The regex matchers are NONDETERMINISTIC: any   *)
(* result the window they are given admits (match end, pin-cite length,     *)
(* raw / trimmed parenthetical length) -- so SpanLaws holds whatever the    *)
(* regexes match.                                                           *)
(* Constants scale the code's BACKWARD_SEEK (28) and MAX_MATCH_CHARS (300). *)
(* PrefixFix / PlaintiffFix = FALSE give the original arithmetic.           *)
(***************************************************************************)
EXTENDS Integers, Sequences, FiniteSets, TLC

CONSTANTS BackSeek, MaxMatch, PrefixFix, PlaintiffFix,
          TokenFloor   \* TRUE: the repaired code (the span never ends before the token does); FALSE: the original:
                       \* with a page longer than the matcher window the pin-cite match covers only part of the prefix

IsString(w) == w.k = "w"
Start(words, j) == LET F[m \in 0..Len(words)] == IF m = 0 THEN 0 ELSE F[m-1] + words[m].n IN F[j-1]
TextLen(words) == LET F[m \in 0..Len(words)] == IF m = 0 THEN 0 ELSE F[m-1] + words[m].n IN F[Len(words)]
Min(a, b) == IF a < b THEN a ELSE b
Max(a, b) == IF a > b THEN a ELSE b

(* match_on_tokens, forward: length of the text handed to re.search (without the prefix) *)
RECURSIVE FwdLen(_, _, _, _)
FwdLen(words, j, stringsOnly, acc) ==
    IF j > Len(words) \/ acc >= MaxMatch THEN Min(acc, MaxMatch)
    ELSE IF (stringsOnly /\ ~IsString(words[j])) \/ words[j].k = "para" THEN acc
    ELSE FwdLen(words, j + 1, stringsOnly, acc + words[j].n)
(* backward, strings only *)
RECURSIVE BackLen(_, _, _)
BackLen(words, j, acc) ==
    IF j < 1 \/ acc >= MaxMatch THEN Min(acc, MaxMatch)
    ELSE IF ~IsString(words[j]) THEN acc
    ELSE BackLen(words, j - 1, acc + words[j].n)

(* extract_pin_cite: span end of a short / supra / id citation.
   pre = len(prefix) (the page of a short cite, part of the token); matched = the regex matched;
   pin = len(m["pin_cite"].rstrip(", ")) or 0 when the group is empty *)
PinSpanEnd(tokEnd, pre, matched, pin) ==
    IF ~matched THEN -1                                   \* None: span falls back to the token
    ELSE LET v == tokEnd + (IF pin > 0 THEN pin ELSE (IF PrefixFix THEN pre ELSE 0)) - pre
         IN  IF TokenFloor /\ v < tokEnd THEN tokEnd ELSE v

(* add_defendant: backward scan.  lead / trail = characters of the joined plaintiff text stripped
   from its left / right end by strip("( ") (trail = 1 for the usual single space before v.).
   Returns the offset to subtract from the span start, or -1 when no stop word is found. *)
RECURSIVE Scan(_, _, _, _, _, _)
Scan(words, idx, j, off, lead, trail) ==
    IF j < 1 \/ j <= idx - BackSeek THEN -1
    ELSE LET o == off + words[j].n IN
         IF words[j].k \in {"stopv", "stop"}
         THEN IF words[j].k = "stopv" /\ j > 1
              THEN LET a == Max(j - 2, 1)                       \* words[max(index-2,0):index]
                       joined == (IF a < j - 1 THEN words[a].n ELSE 0) + words[j-1].n
                   IN  IF PlaintiffFix THEN o + joined - lead
                       ELSE o + (joined - lead - trail) + 1     \* len(plaintiff_text.strip("( ")) + 1
              ELSE o - words[j].n
         ELSE IF words[j].semi THEN -1      \* word.endswith(";") (tokens are UserStrings too): string citation
         ELSE Scan(words, idx, j - 1, o, lead, trail)

(* ---- the laws of C02 for one citation record ---- *)
SpanLaws(c, n) == /\ 0 <= c.fs /\ c.fs <= c.s /\ c.s <= c.e /\ c.e <= c.fe /\ c.fe <= n
                  /\ c.e >= c.te                             \* the slice starts with the whole token
                  /\ c.ps <= c.s /\ c.e <= c.pe /\ c.pe <= n /\ 0 <= c.ps
=============================================================================
