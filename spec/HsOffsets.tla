----------------------------- MODULE HsOffsets -----------------------------
(***************************************************************************)
(* HyperscanTokenizer.extract_tokens: byte-level matching, translation of   *)
(* byte offsets to character offsets, re-matching with the Python pattern.  *)
(*                                                                          *)
(* A text is a sequence of characters [cls, w]:                             *)
(*   "c" a character of the citation core (alphanumeric for the boundary    *)
(*       test), "a" another ASCII alphanumeric, "p" ASCII punctuation or    *)
(*       space, "m" a multi-byte character (w = 2 or 3 bytes; not ASCII     *)
(*       alphanumeric, so it is a boundary character for Python and each of *)
(*       its bytes is a boundary byte for Hyperscan).                       *)
(* The extractor pattern is  (?:^|[^a-zA-Z0-9]) (c+) (?:[^a-zA-Z0-9]|$)     *)
(* as produced by nonalphanum_boundaries_re.                                *)
(* Widen = TRUE is the repaired code (a hit is widened to whole characters  *)
(* before the offsets are translated); FALSE the original.                  *)
(***************************************************************************)
EXTENDS Integers, Sequences, FiniteSets, TLC
CONSTANT Widen

N(t) == Len(t)
IsBoundary(ch) == ch.cls \in {"p", "m"}
ByteOff(t, i) == LET F[k \in 0..Len(t)] == IF k = 0 THEN 0 ELSE F[k-1] + t[k].w IN F[i]   \* bytes before char i+1 (0-based char index i)
Bytes(t) == ByteOff(t, Len(t))
(* maximal runs of core characters, as 0-based half-open character intervals *)
Runs(t) == {<<i, j>> \in (0..N(t)) \X (0..N(t)) :
              /\ i < j /\ \A k \in (i+1)..j : t[k].cls = "c"
              /\ (i = 0 \/ t[i].cls # "c") /\ (j = N(t) \/ t[j+1].cls # "c")}
Bounded(t, r) == /\ (r[1] = 0 \/ IsBoundary(t[r[1]]))
                 /\ (r[2] = N(t) \/ IsBoundary(t[r[2] + 1]))
(* every run that the pattern matches somewhere in the text (overlapping matches allowed) *)
Genuine(t) == {r \in Runs(t) : Bounded(t, r)}
(* re.finditer: left to right, a match consumes its two boundary characters *)
RECURSIVE FindIter(_, _, _)
FindIter(t, pos, acc) ==      \* pos: first character the next match may use
    LET cand == {r \in Genuine(t) : (IF r[1] = 0 THEN 0 ELSE r[1] - 1) >= pos} IN
    IF cand = {} THEN acc
    ELSE LET r == CHOOSE x \in cand : \A y \in cand : x[1] <= y[1]
         IN FindIter(t, IF r[2] = N(t) THEN N(t) + 1 ELSE r[2] + 1, acc \cup {r})
RefCands(t) == FindIter(t, 0, {})

(* Hyperscan with start-of-match: one hit per genuine run, in BYTE offsets: the boundary before
   is one byte (the last byte of the character), the boundary after is one byte (its first) *)
HsRaw(t) == {<<IF r[1] = 0 THEN 0 ELSE ByteOff(t, r[1]) - 1,
               IF r[2] = N(t) THEN Bytes(t) ELSE ByteOff(t, r[2]) + 1, r>> : r \in Genuine(t)}
CharStarts(t) == {ByteOff(t, k) : k \in 0..N(t)}
CharOf(t, b) == CHOOSE k \in 0..N(t) : ByteOff(t, k) = b
WidenDown(t, b) == CHOOSE x \in CharStarts(t) : x <= b /\ \A y \in CharStarts(t) : y <= b => y <= x
WidenUp(t, b)   == CHOOSE x \in CharStarts(t) : x >= b /\ \A y \in CharStarts(t) : y >= b => y >= x
(* the code: (widen,) keep hits whose two offsets decode, slice, re-match: group 1 offsets *)
HsCands(t) ==
    LET hits == {IF Widen THEN <<WidenDown(t, h[1]), WidenUp(t, h[2]), h[3]>> ELSE h : h \in HsRaw(t)}
        ok == {h \in hits : h[1] \in CharStarts(t) /\ h[2] \in CharStarts(t)}
    IN  { LET sc == CharOf(t, h[1])  ec == CharOf(t, h[2])
              \* Python pattern matched at the start of the slice text[sc:ec]:
              g1 == IF sc = h[3][1] THEN sc ELSE sc + 1
          IN <<g1, g1 + (h[3][2] - h[3][1])>> : h \in ok }

=============================================================================
