------------------------------ MODULE Annotate ------------------------------
(***************************************************************************)
(* eyecite.annotate.annotate_citations as a state machine, one action per   *)
(* iteration of the annotation loop.                                        *)
(*                                                                          *)
(* The target text (source text if given, else the plain text) is a         *)
(* sequence of tokens [c, n]: class and length in characters                *)
(*    "t"  plain text (n characters, also part of the plain text)           *)
(*    "w"  inserted whitespace / line break (source only, not a tag)        *)
(*    "oX" / "cX"  opening / closing tag X in {i, b, p, d = div}            *)
(*    "sc" a self-closing element (<br/>): a tag, balanced on its own       *)
(*    "d"  plain text the source LACKS (n characters of the plain text,     *)
(*         none of the target: a deletion of the diff)                      *)
(* Offsets are character offsets; annotation spans are cut at token         *)
(* boundaries (a "t" token of length 1 gives character granularity).        *)
(* With HasSource the plain text is the concatenation of the "t" tokens and *)
(* everything else is inserted material (the forced-alignment construction  *)
(* of C10: the minimal diff is unique: "=" per t token, "+" per other).     *)
(*                                                                          *)
(* out is a sequence of items <<"s", a, b>> (characters a..b-1 of the       *)
(* target), <<"B", k>>, <<"A", k>> (before / after string of annotation k), *)
(* so "deleting the inserted strings" is a projection.                      *)
(***************************************************************************)
EXTENDS SpanUpdater, SequencesExt, FiniteSetsExt, TLC

CONSTANTS Tol,           \* style-tag tolerance of maybe_balance_style_tags (10)
          EmptySpanClamp,\* TRUE: end := max(end, start) after translation (repaired code)
          SkipReclip,    \* TRUE: a style-tag repair reaching back before last_end is skipped (repaired)
          EmptySourceFix \* TRUE: an EMPTY source text is a source text (repaired); FALSE: `if source_text and ...`
                         \* treats it like None and annotates the plain text

VARIABLES src,      \* target text as token sequence
          hasSrc,   \* a separate source text was given
          mode,     \* "unchecked" | "skip" | "wrap"
          anns,     \* annotations <<s, e>> in plain-text offsets, in sorted order
          pc, k, lastEnd, out, err
vars == <<src, hasSrc, mode, anns, pc, k, lastEnd, out, err>>

TagLen(c) == CASE c \in {"oi", "ob", "op"} -> 3 [] c \in {"ci", "cb", "cp"} -> 4 [] c = "sc" -> 5
               [] c = "od" -> 5 [] c = "cd" -> 6 [] OTHER -> 0
IsTag(c) == c \in {"oi", "ob", "op", "oa", "od", "ci", "cb", "cp", "ca", "cd", "sc"}
IsOpen(c)  == c \in {"oi", "ob", "op", "oa", "od"}
IsClose(c) == c \in {"ci", "cb", "cp", "ca", "cd"}
(* "od" / "cd": <div> / </div> -- the element name the balance test itself wraps a span in *)
TagName(c) == CASE c \in {"oi", "ci"} -> "i" [] c \in {"ob", "cb"} -> "b"
                [] c \in {"op", "cp"} -> "p" [] c \in {"oa", "ca"} -> "a" [] c \in {"od", "cd"} -> "div" [] OTHER -> ""

SrcIgnored == ~EmptySourceFix /\ hasSrc /\ \A j \in DOMAIN src : src[j].c = "d"    \* original code, source_text = ""
UseSrc == hasSrc /\ ~SrcIgnored
TLen(t) == IF t.c = "d" /\ ~SrcIgnored THEN 0 ELSE t.n        \* length in the text the loop works on
TargetLen == LET F[m \in 0..Len(src)] == IF m = 0 THEN 0 ELSE F[m-1] + (IF src[m].c = "d" THEN 0 ELSE src[m].n)
             IN F[Len(src)]                                    \* length of the target the PROPERTY names
Off(j)  == LET F[m \in 0..Len(src)] == IF m = 0 THEN 0 ELSE F[m-1] + TLen(src[m]) IN F[j - 1]   \* start of token j
TotalLen == LET F[m \in 0..Len(src)] == IF m = 0 THEN 0 ELSE F[m-1] + TLen(src[m]) IN F[Len(src)]
Bounds  == {Off(j) : j \in 1..Len(src)} \cup {TotalLen}
(* tokens lying inside the character interval [a, b) *)
Inside(a, b) == SelectSeq([j \in 1..Len(src) |-> j], LAMBDA j : (src[j].c # "d" \/ SrcIgnored) /\ a <= Off(j) /\ Off(j) + src[j].n <= b)
Classes(a, b) == [x \in DOMAIN Inside(a, b) |-> src[Inside(a, b)[x]].c]

(* plain text = the "t" tokens; script of the unique minimal diff plain -> source *)
Script == [j \in 1..Len(src) |-> [op |-> IF src[j].c = "t" THEN "=" ELSE IF src[j].c = "d" THEN "-" ELSE "+", n |-> src[j].n]]
PlainLen == LenBefore(Script)
PlainBounds == {LET F[m \in 0..Len(src)] == IF m = 0 THEN 0
                      ELSE F[m-1] + (IF src[m].c \in {"t", "d"} THEN src[m].n ELSE 0) IN F[j] : j \in 0..Len(src)}

(* utils.is_balanced_html on a span cut at token boundaries: no tag inside -> fast
   path; otherwise whole tags must nest properly (XML parse inside a <div>) *)
RECURSIVE Nest(_, _, _)
Nest(cs, x, st) == IF x > Len(cs) THEN st = <<>>
                   ELSE IF IsOpen(cs[x]) THEN Nest(cs, x + 1, Append(st, TagName(cs[x])))
                   ELSE IF IsClose(cs[x]) THEN (st # <<>> /\ st[Len(st)] = TagName(cs[x])
                                                 /\ Nest(cs, x + 1, Front(st)))
                   ELSE Nest(cs, x + 1, st)
Balanced(a, b) == Nest(Classes(a, b), 1, <<>>)

(* utils.maybe_balance_style_tags(start, end, text): has_opening / has_closing are
   read from the ORIGINAL span, start / end accumulate over the tag loop *)
StyleTags == <<"i", "b">>
RECURSIVE Repair(_, _, _, _)
Repair(x, s, e, orig) ==
    IF x > Len(StyleTags) THEN <<s, e>>
    ELSE LET tg == StyleTags[x]
             oc == "o" \o tg   cc == "c" \o tg
             hasO == \E y \in DOMAIN orig : orig[y] = oc
             hasC == \E y \in DOMAIN orig : orig[y] = cc
             extEnd   == Min({e + 4 + Tol, TotalLen})
             closers  == {j \in 1..Len(src) : src[j].c = cc /\ Off(j) >= s /\ Off(j) + 4 <= extEnd}
             e2 == IF hasO /\ ~hasC /\ closers # {} THEN Off(Min(closers)) + 4 ELSE e
             extStart == Max({s - 3 - Tol, 0})
             openers  == {j \in 1..Len(src) : src[j].c = oc /\ Off(j) >= extStart /\ Off(j) + 3 <= e2}
             s2 == IF ~hasO /\ hasC /\ openers # {} THEN Off(Max(openers)) ELSE s
         IN  Repair(x + 1, s2, e2, orig)
MaybeBalance(s, e) == Repair(1, s, e, Classes(s, e))

(* utils.wrap_html_tags(span, after, before): every tag inside the span is closed before and reopened after *)
RECURSIVE WrapItems(_, _, _, _)
WrapItems(js, x, a, kk) ==    \* js: token indices inside the span, a: current slice start
    IF x > Len(js) THEN <<>>
    ELSE LET j == js[x] IN
         IF IsTag(src[j].c)
         THEN <<<<"A", kk>>, <<"s", Off(j), Off(j) + src[j].n>>, <<"B", kk>>>> \o WrapItems(js, x + 1, a, kk)
         ELSE <<<<"s", Off(j), Off(j) + src[j].n>>>> \o WrapItems(js, x + 1, a, kk)

Slice(a, b) == IF a < b THEN <<<<"s", a, b>>>> ELSE <<>>          \* Python slice text[a:b]

-----------------------------------------------------------------------------
LoopStep ==
  /\ pc = "loop" /\ k <= Len(anns) /\ err = "none"
  /\ LET rs == Ranges(Script)
         us == IF UseSrc THEN Upd(rs, anns[k][1], "right") ELSE <<anns[k][1], "none">>
         ue == IF UseSrc THEN Upd(rs, anns[k][2], "left")  ELSE <<anns[k][2], "none">>
         s0 == us[1]
         e0 == IF EmptySpanClamp /\ ue[1] < s0 THEN s0 ELSE ue[1]
         s1 == IF s0 < lastEnd THEN lastEnd ELSE s0
     IN
     IF us[2] # "none" \/ ue[2] # "none"
     THEN /\ err' = "IndexError" /\ UNCHANGED <<lastEnd, out>>
     ELSE /\ err' = "none"
          /\ IF s0 < lastEnd /\ s1 >= e0
             THEN UNCHANGED <<lastEnd, out>>                               \* entirely covered
             ELSE IF mode = "unchecked" \/ Balanced(s1, e0)
                  THEN /\ out' = out \o Slice(lastEnd, s1) \o <<<<"B", k>>>> \o Slice(s1, e0) \o <<<<"A", k>>>>
                       /\ lastEnd' = e0
                  ELSE IF mode = "wrap"
                  THEN /\ out' = out \o Slice(lastEnd, s1) \o <<<<"B", k>>>>
                                     \o WrapItems(Inside(s1, e0), 1, s1, k) \o <<<<"A", k>>>>
                       /\ lastEnd' = e0
                  ELSE LET mb == MaybeBalance(s1, e0) IN
                       IF ~Balanced(mb[1], mb[2]) \/ (SkipReclip /\ mb[1] < lastEnd)
                       THEN UNCHANGED <<lastEnd, out>>                     \* skipped, warning logged
                       ELSE /\ out' = out \o Slice(lastEnd, mb[1]) \o <<<<"B", k>>>>
                                          \o Slice(mb[1], mb[2]) \o <<<<"A", k>>>>
                            /\ lastEnd' = mb[2]
  /\ k' = k + 1 /\ UNCHANGED <<src, hasSrc, mode, anns, pc>>

Finish == /\ pc = "loop" /\ k > Len(anns) /\ err = "none"
          /\ out' = out \o Slice(lastEnd, TotalLen)
          /\ pc' = "done" /\ UNCHANGED <<src, hasSrc, mode, anns, k, lastEnd, err>>

-----------------------------------------------------------------------------
(* projections of out *)
SItems == SelectSeq(out, LAMBDA it : it[1] = "s")
RECURSIVE Chars(_, _)
Chars(its, x) == IF x > Len(its) THEN <<>>
                 ELSE [y \in 1..(its[x][3] - its[x][2]) |-> its[x][2] + y - 1] \o Chars(its, x + 1)
Identity(n) == [y \in 1..n |-> y - 1]

(* C04 *)
NoRaise == err = "none"
(* C09: at every step, what was emitted plus the rest of the text is the text *)
Additive == err = "none" =>
    Chars(SItems, 1) \o (IF pc = "done" THEN <<>> ELSE [y \in 1..(TotalLen - lastEnd) |-> lastEnd + y - 1])
       = Identity(TargetLen)
(* C11: token-level rendering of out: annotation k becomes the element <a>..</a> *)
RECURSIVE OutClasses(_, _)
OutClasses(its, x) ==
    IF x > Len(its) THEN <<>>
    ELSE (CASE its[x][1] = "B" -> <<"oa">> [] its[x][1] = "A" -> <<"ca">>
            [] OTHER -> Classes(its[x][2], its[x][3])) \o OutClasses(its, x + 1)
SourceWellFormed == Nest([j \in 1..Len(src) |-> src[j].c], 1, <<>>)
WellFormedOut == (pc = "done" /\ err = "none" /\ SourceWellFormed /\ mode \in {"skip", "wrap"})
                    => Nest(OutClasses(out, 1), 1, <<>>)
Emitted == {out[x][2] : x \in {y \in DOMAIN out : out[y][1] = "B"}}
(* C10 (source, forced alignment, unchecked): annotation kk of a non-empty plain span
   that does not overlap an earlier one encloses exactly the source characters from its
   first to its last plain character *)
PlainToSrcStart(p) == Upd(Ranges(Script), p, "right")[1]
PlainToSrcEnd(p)   == Upd(Ranges(Script), p, "left")[1]
=============================================================================
