------------------------------ MODULE HsCache ------------------------------
(***************************************************************************)
(* HyperscanTokenizer.hyperscan_db: life cycle of the optional cache file.  *)
(*                                                                          *)
(* file:  "absent" | "empty" | "prefix" (truncated, as after a crash while  *)
(*        writing) | "intact" | "badmagic" | "badversion" | "badplatform" | *)
(*        "badbody" | "garbage" | "appended"                                *)
(* Load(file) is an ENVIRONMENT ASSUMPTION about hyperscan.loadb (re-measured*)
(* on every replay): intact loads; a changed version / platform field raises*)
(* DatabaseVersionError / DatabasePlatformError; everything else raises     *)
(* InvalidError.  (Measured exception: a flipped byte in the body is        *)
(* occasionally accepted -- the checksum does not cover every byte; the     *)
(* trace specification tolerates that outcome and leaves the verdict to the *)
(* same-tokens monitor.)                                                    *)
(* Constructing a tokenizer is several steps: exists?, read + load, scratch *)
(* assignment (AttributeError on None is caught), compile, write begin,     *)
(* write end.  The process may crash between write begin and write end      *)
(* (write_bytes is not atomic).  CatchAll = TRUE is the repaired code       *)
(* (any hyperscan.error falls back to recompiling), FALSE the original      *)
(* (only InvalidError).                                                     *)
(***************************************************************************)
EXTENDS Integers, Sequences, FiniteSets, TLC
CONSTANTS CatchAll, MaxFaults

Faulty == {"empty", "prefix", "badmagic", "badversion", "badplatform", "badbody", "garbage", "appended"}
Load(f) == CASE f = "intact" -> "ok"
             [] f = "badversion" -> "DatabaseVersionError"
             [] f = "badplatform" -> "DatabasePlatformError"
             [] OTHER -> "InvalidError"
Caught(e) == e = "InvalidError" \/ CatchAll

VARIABLES file,    \* state of the cache file
          pc,      \* "none" (no tokenizer) | "exists" | "loaded" | "compile" | "writing" | "ready"
          db,      \* "none" | "loaded" | "compiled"
          err, faults, hist
vars == <<file, pc, db, err, faults, hist>>

Init == file = "absent" /\ pc = "none" /\ db = "none" /\ err = "none" /\ faults = 0 /\ hist = <<>>

(* a new tokenizer is constructed and its database is requested *)
Begin == /\ pc \in {"none", "ready"} /\ err = "none"
         /\ pc' = "exists" /\ db' = "none" /\ hist' = Append(hist, "construct")
         /\ UNCHANGED <<file, err, faults>>
Exists == /\ pc = "exists"
          /\ IF file = "absent" THEN pc' = "compile" /\ UNCHANGED <<db, err>>
             ELSE LET r == Load(file) IN
                  IF r = "ok" THEN pc' = "loaded" /\ db' = "loaded" /\ UNCHANGED err
                  ELSE IF Caught(r) THEN pc' = "loaded" /\ UNCHANGED <<db, err>>      \* db stays None
                  ELSE err' = r /\ pc' = "none" /\ UNCHANGED db
          /\ UNCHANGED <<file, faults, hist>>
(* hyperscan_db.scratch = Scratch(db): AttributeError when db is None, caught *)
Scratch == /\ pc = "loaded"
           /\ pc' = IF db = "none" THEN "compile" ELSE "ready"
           /\ UNCHANGED <<file, db, err, faults, hist>>
Compile == /\ pc = "compile" /\ db' = "compiled" /\ pc' = "writing"
           /\ UNCHANGED <<file, err, faults, hist>>
WriteBegin == /\ pc = "writing" /\ file # "prefix" /\ file' = "prefix" /\ UNCHANGED <<pc, db, err, faults, hist>>
WriteEnd   == /\ pc = "writing" /\ file = "prefix" /\ file' = "intact" /\ pc' = "ready"
              /\ UNCHANGED <<db, err, faults, hist>>
(* faults of the environment *)
Crash == /\ pc = "writing" /\ file = "prefix" /\ faults < MaxFaults
         /\ pc' = "none" /\ db' = "none" /\ faults' = faults + 1 /\ hist' = Append(hist, "crash")
         /\ UNCHANGED <<file, err>>
Corrupt == /\ pc \in {"none", "ready"} /\ file = "intact" /\ faults < MaxFaults
           /\ \E f \in Faulty : file' = f /\ hist' = Append(hist, f)
           /\ faults' = faults + 1 /\ UNCHANGED <<pc, db, err>>
(* another tokenizer configuration (same patterns, other flags -- e.g. another library version)
   uses the same cache directory: its database lives under another name (the cache key covers
   expressions AND flags), so nothing this tokenizer reads changes *)
Foreign == /\ pc \in {"none", "ready"} /\ faults < MaxFaults
           /\ \E kind \in {"foreign", "foreignorder"} : hist' = Append(hist, kind)
              \* "foreignorder": the SAME patterns and flags in another order (a database reports pattern positions,
              \* so the order is part of what the cache key must cover)
           /\ faults' = faults + 1
           /\ UNCHANGED <<file, pc, db, err>>
Next == Begin \/ Exists \/ Scratch \/ Compile \/ WriteBegin \/ WriteEnd \/ Crash \/ Corrupt \/ Foreign
Spec == Init /\ [][Next]_vars

(* C14, cache clause *)
NeverRaises == err = "none"
ReadyIsUsable == pc = "ready" => db \in {"loaded", "compiled"}
(* a database is only ever taken from an intact file *)
LoadedOnlyIntact == [][(db # "loaded" /\ db' = "loaded") => file = "intact"]_vars
=============================================================================
