#!/bin/sh
# Offline setup: nothing to compile.  Syntax-check every specification and create the work dirs.
cd "$(dirname "$0")" || exit 1
mkdir -p .work evidence replays
rc=0
for f in spec/*.tla; do
  out=$(cd spec && tla-sany "$(basename "$f")" 2>&1)
  if echo "$out" | grep -qE "\*\*\* Errors|Fatal|Could not"; then echo "SANY failed: $f"; echo "$out" | tail -20; rc=1; fi
done
exit $rc
