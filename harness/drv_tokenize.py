"""Driver: run the real tokenizers (eyecite imported from /repo).

run_toy : Tokenize.tla configurations -> a real Tokenizer with one-off extractors whose
          patterns match exactly the abstract candidates, so the real loop takes the
          model's transitions on a toy text (DESIGN 3.10).
run_docs: real documents through the shipped tokenizers; candidates are read from the
          public extract_tokens(), the result from tokenize().
Projection (both): text as code points, every returned word as code points with its
`special` flag and (for special tokens) the token's own start/end, the index list.
"""
import re


def _cp(s):
    return [ord(c) for c in s]


def project(text, words, ctoks, Token):
    out = {"text": _cp(text), "raised": ""}
    ws, pos = [], 0
    for w in words:
        st = str(w)
        special = isinstance(w, Token)
        ws.append({"t": _cp(st), "special": special,
                   "s": w.start if special else pos, "e": w.end if special else pos + len(st),
                   "cs": pos, "ce": pos + len(st)})
        pos += len(st)
    out["words"] = ws
    out["ctoks"] = [i + 1 for i, _ in ctoks]
    out["ctok_same"] = all(0 <= i < len(words) and words[i] is t for i, t in ctoks)
    return out


def run_toy(payload):
    from eyecite.models import (CitationToken, Edition, IdToken, Reporter, SupraToken, Token,
                                TokenExtractor)
    from eyecite.tokenizers import Tokenizer
    nom_ed = Edition(reporter=Reporter(short_name="Thompson", name="Thompson", cite_type="state",
                                       source="reporters"), short_name="Thompson", start=None, end=None)
    us_ed = Edition(reporter=Reporter(short_name="U.S.", name="United States Reports", cite_type="federal",
                                      source="reporters"), short_name="U.S.", start=None, end=None)
    res = []
    for cfg in payload["items"]:
        n = cfg["N"]
        text = "".join(" " if p in cfg["sp"] else "x" for p in range(n))
        exts = []
        for c in cfg["cands"]:
            rx = "(?s)^.{%d}(.{%d})" % (c["s"], c["e"] - c["s"])
            if c["kind"] == "oth":
                exts.append(TokenExtractor(rx, (IdToken if c["v"] == 1 else SupraToken).from_match))
            else:
                ed = nom_ed if c["kind"] == "nom" else us_ed
                # v distinguishes tokens that do not merge: by `short` on odd starts, by groups on even
                if c["s"] % 2:
                    rx2, short = rx, c["v"] == 2
                else:
                    rx2, short = rx.replace("(.{", "(?P<g%d>.{" % c["v"]).replace("(?P<g", "((?P<g") + ")", False
                exts.append(TokenExtractor(rx2, CitationToken.from_match,
                                           extra={"exact_editions": [ed], "variation_editions": [], "short": short}))
        try:
            words, ctoks = Tokenizer(extractors=exts).tokenize(text)
            res.append(project(text, words, ctoks, Token))
        except Exception as ex:  # noqa: BLE001
            res.append({"text": _cp(text), "raised": f"{type(ex).__name__}: {ex}", "words": [], "ctoks": [],
                        "ctok_same": True})
    return res


_TOK = {}


def tokenizer(name):
    if name not in _TOK:
        from eyecite.tokenizers import EXTRACTORS, HyperscanTokenizer, Tokenizer, default_tokenizer
        import tempfile
        if name == "ref":
            _TOK[name] = Tokenizer()
        elif name == "aho":
            _TOK[name] = default_tokenizer
        elif name == "hs":
            import os
            d = os.environ.get("VERIF_HS_CACHE") or tempfile.mkdtemp(prefix="hs")
            # (history: never the first Hyperscan tokenizer of the process)
            HyperscanTokenizer(cache_dir=d, extractors=list(reversed(EXTRACTORS[-5:])) + EXTRACTORS[:40:8]).tokenize("Foo, supra, at 5; id. § 3.")
            _TOK[name] = HyperscanTokenizer(cache_dir=d)
    return _TOK[name]


def abstract_cands(toks):
    from eyecite.models import CitationToken
    from eyecite.tokenizers import token_is_from_nominative_reporter
    out, classes = [], {}
    for t in toks:
        cite = isinstance(t, CitationToken)
        key = (t.start, t.end, type(t).__name__, repr(sorted(t.groups.items(), key=str)), getattr(t, "short", None))
        v = classes.setdefault((t.start, t.end), {}).setdefault(key, len(classes[(t.start, t.end)]) + 1)
        kind = ("nom" if token_is_from_nominative_reporter(t) else "cite") if cite else "oth"
        out.append({"s": t.start, "e": t.end, "kind": kind, "v": v})
    return out


def run_docs(payload):
    from eyecite.models import Token
    res = []
    for item in payload["items"]:
        text, tk = item["text"], tokenizer(item["tok"])
        try:
            if item.get("again"):
                try:
                    from eyecite import get_citations
                    tk.tokenize(text)
                    get_citations(text, tokenizer=tk)
                except Exception:  # noqa: BLE001 - a raising call is judged under C04
                    pass
            cands = abstract_cands(list(tk.extract_tokens(text)))
            words, ctoks = tk.tokenize(text)
            o = project(text, words, ctoks, Token)
            o["cands"] = cands
            o["sp"] = [i for i, c in enumerate(text) if c == " "]
        except Exception as ex:  # noqa: BLE001
            o = {"text": _cp(text), "raised": f"{type(ex).__name__}: {ex}", "words": [], "ctoks": [],
                 "ctok_same": True, "cands": [], "sp": []}
        o["tok"] = item["tok"]
        res.append(o)
    return res
