"""Check C16 (citation equality identifies the cited document): Equality.tla.
 (A) TLC model-checks Equality.tla: all pairs of abstract citations over a toy database with every
     ambiguity pattern (exact / variation / exact-wins / ambiguous variation / shared short name),
     all classes, placeholder pages, years in and out of range: CaseIff, SelfOnlyLaw, CrossKind,
     HashResource, Symmetric, Reflexive, MetaFree.
 (B)+(C) exhaustive over reporters-db (read directly, not through eyecite): for every reporter string
     that denotes exactly one edition, a group of citations written with the canonical and the
     variant spelling, different context / pin / year (in and out of the edition's range) / parties /
     parenthetical, different page, different volume, short form, two placeholder-page citations;
     all pairs compared with ==, hash(), Resource(); round trip of corrected_citation(); pools of all
     database examples for the equivalence laws.  Trace_Equality.tla (TLC) judges every group.
"""
import datetime
import random
import sys

import vlib
from vlib import Evidence, MachineryError, Verdict, run_tlc, tlc_must_pass, tlc_judge


def groups_for(strings, years, today, thorough, rnd, all_strings):
    groups = []
    canon_of = {x["string"]: x["canon"] for x in all_strings}
    for s in strings:
        if not s["canon"]:
            continue
        R, E = s["string"], s["canon"]
        a, b = years[s["editions"][0]]
        yout = (a - 3) if a and a - 3 >= 1600 else ((b + 3) if b and b + 3 <= today else 1601)
        yin = a if a else (b if b else 1950)
        key = f"1|2|{E}"
        want = {"volume": "1", "reporter": R, "page": "2"}
        m = [
            {"text": f"1 {E} 2", "cls": "FullCaseCitation", "key": key, "want": {**want, "reporter": E}, "roundtrip": True},
            {"text": f"1 {R} 2", "cls": "FullCaseCitation", "key": key, "want": want, "roundtrip": True},
            {"text": f"Foo v. Bar, 1 {R} 2, 5 ({yin}) (holding x).", "cls": "FullCaseCitation", "key": key, "want": want,
             **({"tok": "hs"} if len(groups) % 4 == 0 else {})},       # every fourth group: this member through Hyperscan
            {"text": f"See Baz v. Qux, 1 {R} 2 ({yout}).", "cls": "FullCaseCitation", "key": key, "want": want},
            {"text": f"In re Quux, 1 {R} 2, 9 (9th Cir. 1999) (en banc), cert. denied.", "cls": "FullCaseCitation", "key": key, "want": want},
            {"text": f"1 {R} 3", "cls": "FullCaseCitation", "key": f"1|3|{E}", "want": {**want, "page": "3"}},
            {"text": f"2 {R} 2", "cls": "FullCaseCitation", "key": f"2|2|{E}", "want": {**want, "volume": "2"}},
            {"text": f"Bar, 1 {R} at 2.", "cls": "ShortCaseCitation", "key": key, "want": want},
            {"text": f"Bar, 1 {E} at 2 (quoting y).", "cls": "ShortCaseCitation", "key": key, "want": {**want, "reporter": E}},
            {"text": f"1 {R} ___", "cls": "FullCaseCitation", "key": "ph", "selfonly": True, "want": {"volume": "1", "reporter": R}},
            {"text": f"1 {R} ___", "cls": "FullCaseCitation", "key": "ph", "selfonly": True, "want": {"volume": "1", "reporter": R}},
            # a placeholder written with a single underscore (the page pattern accepts one or more)
            {"text": f"1 {R} _ (1999)", "cls": "FullCaseCitation", "key": "ph", "selfonly": True, "want": {"volume": "1", "reporter": R}},
            {"text": f"1 {R} _ (1999)", "cls": "FullCaseCitation", "key": "ph", "selfonly": True, "want": {"volume": "1", "reporter": R}},
        ]
        # the string is an edition name AND a variation of other editions: exact names win whatever the year, also a
        # year in which only one of the OTHER editions was published (its first / last year)
        for oid in s.get("others", []):
            oa, ob = years.get(oid, [None, None])
            for y in sorted({v for v in (oa, ob) if v and 1600 <= v <= today}):
                m.append({"text": f"Quux v. Corge, 1 {R} 2 ({y}).", "cls": "FullCaseCitation", "key": key, "want": want})
        # a different edition of the same reporter, same volume and page: a different document
        prefix = s["editions"][0].rsplit("#", 1)[0] + "#"
        sib = sorted(k.rsplit("#", 1)[1] for k in years if k.startswith(prefix) and k != s["editions"][0])
        sib = [x for x in sib if canon_of.get(x) == x]
        if sib:
            E2 = sib[len(R) % len(sib)]
            m.append({"text": f"1 {E2} 2", "cls": "FullCaseCitation", "key": f"1|2|{E2}", "want": {**want, "reporter": E2}})
        groups.append({"label": R, "members": m})
    return groups


def main(pid):
    thorough = vlib.tier() == "thorough"
    ev, vd = Evidence(pid), Verdict(pid)
    rnd = random.Random(vlib.seed())
    today = datetime.date.today().year
    r = run_tlc("MC_Equality", "MC_Equality.cfg", timeout=900)
    tlc_must_pass(r, "MC_Equality")
    ev.add_tlc("MC_Equality", r, "toy database of 5 strings / 3 editions, all pairs")
    db = vlib.impl_run("drv_extract", "db_strings", {})
    strings = db["strings"]
    if not thorough:
        var = [s for s in strings if s["canon"] and not s["is_exact"]]
        exact = [s for s in strings if s["canon"] and s["is_exact"]]
        rnd.shuffle(exact)
        strings = var + [s for s in exact if s.get("others")] + [s for s in exact if not s.get("others")][:300]
    groups = groups_for(strings, db["years"], today, thorough, rnd, db["strings"])
    # special groups: nominative parentheticals, Id / Unknown / supra, law and journal citations
    groups.append({"label": "nominative", "members": [
        {"text": "5 U.S. 137", "cls": "FullCaseCitation", "key": "5|137|U.S.", "roundtrip": True},
        {"text": "Marbury v. Madison, 5 U.S. (1 Cranch) 137, 177 (1803)", "cls": "FullCaseCitation", "key": "5|137|U.S."},
        {"text": "5 U. S. 137 (1803)", "cls": "FullCaseCitation", "key": "5|137|U.S."},
        {"text": "Id. at 5.", "cls": "IdCitation", "key": "id", "selfonly": True},
        {"text": "Id. at 5.", "cls": "IdCitation", "key": "id", "selfonly": True},
        {"text": "see § 5", "cls": "UnknownCitation", "key": "un", "selfonly": True},
        {"text": "see § 5", "cls": "UnknownCitation", "key": "un", "selfonly": True},
        {"text": "1 Minn. L. Rev. 5", "cls": "FullJournalCitation", "key": "j1|5"},
        {"text": "See 1 Minn. L. Rev. 5, 7 (1916) (arguing z)", "cls": "FullJournalCitation", "key": "j1|5"},
        {"text": "1 Minn. L. Rev. 6", "cls": "FullJournalCitation", "key": "j1|6"},
        {"text": "Mass. Gen. Laws ch. 1, § 2", "cls": "FullLawCitation", "key": "l1|2"},
        {"text": "Mass. Gen. Laws ch. 1, § 2 (West 1999)", "cls": "FullLawCitation", "key": "l1|2"},
        {"text": "Mass. Gen. Laws ch. 1, § 3", "cls": "FullLawCitation", "key": "l1|3"},
        {"text": "5 U.S. at 137", "cls": "ShortCaseCitation", "key": "5|137|U.S."},
    ]})
    # reporter strings that name SEVERAL editions: (i) an edition name shared by two reporters (all candidates are called
    # like the string: the normalised reporter is the same whichever is guessed, so the year does not matter); (ii) a
    # variation of differently named editions (the year decides the normalised reporter: identities are read off the
    # extracted objects).  Both kinds also go through resolve_citations and are compared again afterwards (history).
    namb = 0
    for st in db["strings"]:
        eds = st["editions"]
        if len(eds) < 2:
            continue
        S = st["string"]
        rng = {e: ((db["years"][e][0] or 1600), (db["years"][e][1] or today)) for e in eds}
        ys = []
        for e in eds:
            y = next((y for y in (rng[e][0], rng[e][1]) if 1600 <= y <= today and all(not (rng[o][0] <= y <= rng[o][1]) for o in eds if o != e)), None)
            if y:
                ys.append(y)
        if len(ys) < 2:
            continue
        namb += 1
        same_name = st["is_exact"]
        key = f"1|2|{S}" if same_name else "@groups"
        m = [{"text": f"Foo v. Bar, 1 {S} 2 ({ys[0]}).", "cls": "FullCaseCitation", "key": key, "want": {"volume": "1", "reporter": S, "page": "2"}},
             {"text": f"Baz v. Qux, 1 {S} 2 ({ys[1]}).", "cls": "FullCaseCitation", "key": key, "want": {"volume": "1", "reporter": S, "page": "2"}},
             {"text": f"1 {S} 2", "cls": "FullCaseCitation", "key": key, "want": {"volume": "1", "reporter": S, "page": "2"}},
             {"text": f"Bar, 1 {S} at 2.", "cls": "ShortCaseCitation", "key": key, "want": {"volume": "1", "reporter": S}},
             {"text": f"See 1 {S}, at 2 ({ys[0]}).", "cls": "ShortCaseCitation", "key": key, "want": {"volume": "1", "reporter": S}}]
        groups.append({"label": f"ambiguous:{S}", "members": m, "resolve_then_again": True})
    ev.cov["ambiguous_reporter_groups"] = namb
    ex = vlib.impl_run("drv_extract", "db_examples", {})
    pool = ex["reporters"]
    size = 120
    for i in range(0, len(pool), size):
        groups.append({"label": f"examples#{i}", "members": [
            {"text": t, "cls": "FullCaseCitation", "key": "@groups"} for t in pool[i:i + size]]})
    import os, shutil, time
    hs_dir = vlib.WORK / f"hs-{os.getpid()}-{time.time_ns()}"
    hs_dir.mkdir(parents=True)
    env = {"VERIF_HS_CACHE": str(hs_dir)}
    vlib.impl_run("drv_extract", "run_forms", {"items": [{"text": "1 U.S. 1", "tok": "hs"}]}, env=env)     # compile the databases once
    obs = vlib.impl_map("drv_extract", "run_equality", groups, chunks=vlib.NCPU * 2, env=env)
    shutil.rmtree(hs_dir, ignore_errors=True)
    ev.cov["members_extracted_through_hyperscan"] = sum(1 for g in groups for m in g["members"] if m.get("tok"))
    for g, o in list(zip(groups, obs)):
        if o.get("second"):
            groups.append({**g, "label": o["second"]["label"]})
            obs.append(o.pop("second"))
    fails, _ = tlc_judge("Trace_Equality", "Trace_Equality.cfg", obs, ev, "groups", chunk=1500)
    nfound = sum(1 for o in obs for row in o["rows"] if row["found"])
    skipped = sum(1 for o in obs for row in o["rows"] if not row["found"])
    for ix, cl in fails:
        if cl.startswith("C16"):
            o = obs[ix]
            n = len(o["rows"])
            bad = []
            for i in range(n):
                for j in range(n):
                    ri, rj = o["rows"][i], o["rows"][j]
                    if not (ri["found"] and rj["found"]):
                        continue
                    exp = i == j or (not ri["selfonly"] and not rj["selfonly"] and ri["cls"] == rj["cls"] and ri["key"] == rj["key"])
                    if o["eq"][i][j] != exp or o["eq"][i][j] != o["heq"][i][j] or o["eq"][i][j] != o["req"][i][j]:
                        bad.append({"a": ri["text"], "b": rj["text"], "eq": o["eq"][i][j], "hash_eq": o["heq"][i][j],
                                    "resource_eq": o["req"][i][j], "expected": exp})
            rtbad = [dict(r, text=o["rows"][i]["text"]) for i, r in enumerate(o["rt"]) if r["checked"] and not (r["one"] and r["equal"] and r["fixed"])]
            vd.violation(cl, {"group": o["label"], "pairs": bad[:6], "roundtrip": rtbad[:3]},
                         {"clause": cl, "group_kind": "examples" if o["label"].startswith("examples") else "string"},
                         judge=vlib.J("Trace_Equality", "Trace_Equality.cfg", o), rerun=vlib.R("drv_extract", "run_equality", groups[ix]))
    ev.sample({"group": obs[0]["label"], "members": [r["text"] for r in obs[0]["rows"]][:6]})
    ev.cov["traces_validated_against_impl"] = len(obs)
    ev.cov["evaluations"] = sum(len(o["rows"]) ** 2 for o in obs)
    ev.cov["distinct_nontrivial"] = nfound
    ev.cov["rule"] = ("one group per unambiguous reporter string of reporters-db (quick: every variation, 300 edition names); "
                      "evaluations = compared pairs; non-trivial = members extracted exactly as written (others skipped and counted)")
    ev.cov["members_skipped_not_extracted_as_written"] = skipped
    ev.cov["groups"] = len(obs)
    ev.cov["exhaustive"] = thorough
    ev.assumptions = ["ground truth (which edition a string denotes) is read directly from reporters_db.REPORTERS",
                      "members whose citation is not extracted with exactly the written groups (custom templates, strings matched by a "
                      "second pattern) are skipped and counted, never judged", "TLC, Json community module"]
    ev.write(vd)
    return vd.exit_code()


if __name__ == "__main__":
    vlib.main_wrapper(sys.argv[1], lambda: main(sys.argv[1]))
