"""Checks C09, C10, C11: Annotate.tla + SpanUpdater.tla.

 (A) TLC model-checks Annotate.tla (every target text of <= 4 tokens over text / inserted
     whitespace / <i> <p> (<b>) tags, with and without a separate source, 3 modes, every
     sorted list of <= 2 spans incl. empty / overlapping / touching / identical):
     Additive at every loop step, WellFormedOut, WrapKeepsAll, ExactEnclosure, InOrder,
     NoRaise; and SpanUpdater.tla for every normalised edit script of <= 5 operations.
 (B) every terminal configuration of the emit instance is replayed through the real
     annotate_citations with both diff engines.
 (C) Trace_Annotate.tla / Trace_SpanUpdater.tla (TLC) judge the recorded outputs
     (monitors C09 / C10 / C11, lxml's verdict as the named judge) and check them against the
     model; plus long multi-line forced-alignment documents and arbitrary string pairs.
"""
import json
import random
import sys

import vlib
from vlib import Evidence, MachineryError, Verdict, run_tlc, tlc_must_pass, tlc_judge

MY = {"C09": {"C09.additive"},
      "C10": {"C10.enclosure", "C10.order", "C10.inrange", "C10.monotone", "C10.startend"},
      "C11": {"C11.wellformed", "C11.textcontent", "C11.wrapall"}}


def span_docs(thorough):
    """every span, and every pair of spans, of short plain texts that contain blanks (spans that cover only
    whitespace, empty, touching, nested, overlapping spans), without a source; every single span also against a
    marked-up source (the inserted tags do not occur in the plain text: forced alignment)"""
    texts = ["ab  cd e", " a b ", "1 U.S. 1, 2", "a\n\tb c"] + (["x  y", "Id. at 5 ;"] if thorough else [])
    out = []
    for t in texts:
        n = len(t)
        spans = [(a, b) for a in range(n + 1) for b in range(a, n + 1)]
        marked = "<p>" + "".join(f"<i>{w}</i>" if i % 2 == 0 and w.strip() else w for i, w in enumerate(t.split(" ")) for w in [w + " "]).rstrip(" ") + "</p>"
        for mode in ("unchecked", "skip", "wrap"):
            for sp in spans:
                out.append({"plain": t, "target": t, "hasSrc": False, "mode": mode, "anns": [list(sp)], "dmp": True})
                if "\n" not in t:
                    out.append({"plain": t, "target": marked, "hasSrc": True, "mode": mode, "anns": [list(sp)], "dmp": len(out) % 2 == 0})
            step = 1 if n <= 8 else 2
            for a in spans[::step]:
                for b in spans[::step]:
                    out.append({"plain": t, "target": t, "hasSrc": False, "mode": mode, "anns": sorted([list(a), list(b)]), "dmp": True})
    return out


def long_docs(rnd, n):
    """forced-alignment documents > 100 characters with repeated lines (diff engines switch
    strategy on long inputs); plain = digits, spaces, dots, newlines; inserted = tags, tabs"""
    out = []
    for _ in range(n):
        line = rnd.choice(["12 34 115.", "7 8 9.", "410 55 113, 116."])
        lines = []
        while sum(len(x) + 1 for x in lines) < rnd.choice([105, 130, 170]):
            lines.append(line if rnd.random() < 0.7 else rnd.choice(["99 1.", "3 44 5 66."]))
        if _ % 2 == 1:
            # every line distinct (no repeated lines): the line number is appended
            lines = [f"{ln[:-1]} {k + 10}." for k, ln in enumerate(lines)]
        plain = "\n".join(lines)
        src_lines = []
        for ln in lines:
            r = rnd.random()
            if r < 0.35:
                src_lines.append("<p>" + ln + "</p>")
            elif r < 0.5:
                src_lines.append("<p><i>" + ln + "</i></p>")
            elif r < 0.6:
                src_lines.append("\t" + ln)
            else:
                src_lines.append(ln)
        target = "\n".join(src_lines)
        # annotations: first number group of some lines, possibly touching spans
        anns, pos = [], 0
        for ln in lines:
            if rnd.random() < 0.6:
                first = ln.index(" ") if " " in ln else len(ln)
                anns.append([pos, pos + first])
                if rnd.random() < 0.3 and first + 1 < len(ln):
                    anns.append([pos + first, pos + len(ln)])
            pos += len(ln) + 1
        for mode in ("unchecked", "skip", "wrap"):
            for dmp in (True, False):
                out.append({"plain": plain, "target": target, "hasSrc": True, "mode": mode, "anns": anns, "dmp": dmp})
    return out


def string_pairs(rnd, n):
    alpha = "ab \n<>"
    out = []
    for _ in range(n):
        a = "".join(rnd.choice(alpha) for _ in range(rnd.randint(0, 9)))
        if rnd.random() < 0.5:
            b = list(a)
            for _ in range(rnd.randint(0, 4)):
                op = rnd.random()
                i = rnd.randint(0, len(b))
                if op < 0.5:
                    b.insert(i, rnd.choice(alpha))
                elif b and i < len(b):
                    if op < 0.75:
                        del b[i]
                    else:
                        b[i] = rnd.choice(alpha)
            b = "".join(b)
        else:
            b = "".join(rnd.choice(alpha) for _ in range(rnd.randint(0, 9)))
        for dmp in (True, False):
            out.append({"a": a, "b": b, "dmp": dmp})
    return out


def main(pid):
    thorough = vlib.tier() == "thorough"
    ev, vd = Evidence(pid), Verdict(pid)
    mine = MY[pid]
    rnd = random.Random(vlib.seed())
    total = 0

    # (A)
    cfg = "MC_Annotate_thorough.cfg" if thorough else "MC_Annotate_quick.cfg"
    r = run_tlc("MC_Annotate", cfg, timeout=3000)
    tlc_must_pass(r, cfg)
    ev.add_tlc(cfg, r, "MaxToks=4 MaxAnns=2 Tol=10 tokens t1 t12 w <i> </i> <p> </p>" + (" <b> </b>" if thorough else ""))
    r = run_tlc("MC_SpanUpdater", "MC_SpanUpdater_TRUE.cfg", timeout=600)
    tlc_must_pass(r, "MC_SpanUpdater")
    ev.add_tlc("MC_SpanUpdater", r, "MaxOps=5 MaxN=2")

    # (B) emit + replay with both engines
    r = run_tlc("MC_Annotate", "MC_Annotate_emit4.cfg" if thorough else "MC_Annotate_emit.cfg", timeout=3000)
    tlc_must_pass(r, "MC_Annotate_emit")
    cfgs = []
    for line in r.out.splitlines():
        if line.startswith('<<"R", '):
            cfgs.append(json.loads(json.loads(line[7:-2])))
    ev.add_tlc("MC_Annotate_emit", r, "MaxToks=%d MaxAnns=2" % (4 if thorough else 3))
    # well-formed markup (the domain of C11): every nesting of <i>/<p> and text of <= 8 tokens
    r = run_tlc("MC_Annotate", "MC_Annotate_wf2.cfg" if thorough else "MC_Annotate_wf.cfg", timeout=3000)
    tlc_must_pass(r, "MC_Annotate_wf")
    ev.add_tlc("MC_Annotate_wf", r, "WfOnly MaxToks=8 MaxAnns=%d modes skip/wrap" % (2 if thorough else 1))
    for line in r.out.splitlines():
        if line.startswith('<<"R", '):
            cfgs.append(json.loads(json.loads(line[7:-2])))
    # well-formed bold runs with self-closing elements (<br/>), and style runs with TWO annotations
    # (a style-tag repair that extends a span over the next one)
    for extra_cfg, const in (("MC_Annotate_wfsc.cfg", "WfOnly tokens t1 <b> </b> <br/> MaxToks=7 MaxAnns=1"),
                             ("MC_Annotate_style2.cfg", "WfOnly tokens t1 <i> </i> MaxToks=6 MaxAnns=2"),
                             # <div> elements: the element name is_balanced_html itself wraps the span in
                             ("MC_Annotate_wfdiv.cfg", "WfOnly tokens t1 <div> </div> <i> </i> MaxToks=7 MaxAnns=1"),
                             # sources that LACK parts of the plain text (deletions in the diff, also leading ones)
                             ("MC_Annotate_del6.cfg" if thorough else "MC_Annotate_del.cfg", "tokens t1 d1 (plain-only text) MaxToks=%d MaxAnns=2" % (6 if thorough else 5)),
                             ("MC_Annotate_deltag.cfg", "tokens t1 d1 <i> </i> MaxToks=5 MaxAnns=1")):
        r = run_tlc("MC_Annotate", extra_cfg, timeout=3000)
        tlc_must_pass(r, extra_cfg)
        ev.add_tlc(extra_cfg, r, const)
        for line in r.out.splitlines():
            if line.startswith('<<"R", '):
                cfgs.append(json.loads(json.loads(line[7:-2])))
    del r
    if not cfgs:
        raise MachineryError("no configurations emitted")
    if thorough and len(cfgs) > 400000:
        rnd.shuffle(cfgs)
        cfgs = cfgs[:400000]
    items = []
    for i, c in enumerate(cfgs):
        items.append({"src": c["src"], "hasSrc": c["hasSrc"], "mode": c["mode"], "anns": c["anns"],
                      "dmp": (i % 2 == 0) if c["hasSrc"] else True})
        if c["hasSrc"] and c["anns"] and i % 4 == 1:
            items.append({**items[-1], "dmp": not items[-1]["dmp"]})
        if len(c["anns"]) >= 2 and i % 3 == 0 and not any(t["c"] == "d" for t in c["src"]):
            # equal span texts in different neighbourhoods: every plain character rendered as the same digit
            # (default engine only: with equal characters difflib's longest-block heuristic is not a minimal diff, cf. F21)
            items.append({**items[-1], "same": True, "dmp": True})
    obs = vlib.impl_map("drv_annotate", "run_cfg", items)
    fails, drifts = tlc_judge("Trace_Annotate", "Trace_Annotate.cfg", obs, ev, "configs")
    total += len(obs)

    def report(fails, drifts, obs, kind, func=None, its=None):
        for ix, cl in fails:
            if cl in mine:
                o = obs[ix]
                case = {k: o.get(k) for k in ("src", "hasSrc", "mode", "anns", "dmp", "output", "raised")}
                case["plain"] = "".join(map(chr, o.get("plain", [])))
                case["target"] = "".join(map(chr, o.get("target", [])))
                lines = case["plain"].split("\n")
                vd.violation(cl, {"kind": kind, **case},
                             {"clause": cl, "mode": o.get("mode"), "hasSrc": o.get("hasSrc"),
                              "tokens": "-".join(t["c"] for t in o.get("src", [])),
                              # mechanism signature for the difflib finding: engine + repeated plain lines
                              "engine": "dmp" if o.get("dmp") else "difflib",
                              "repeated_lines": len(set(lines)) < len(lines)},
                             judge=vlib.J("Trace_Annotate", "Trace_Annotate.cfg", o),
                             rerun=vlib.R("drv_annotate", func, its[ix]) if func else None)
        for ix, rest in drifts:
            o = obs[ix]
            vd.spec_drift("Annotate", f"{kind} src={[t['c'] for t in o.get('src', [])]} mode={o.get('mode')} anns={o.get('anns')} out={o.get('output')!r}")
    report(fails, drifts, obs, "token configuration", "run_cfg", items)
    mid = obs[len(obs) // 2]
    ev.sample({"tokens": [t["c"] for t in mid["src"]], "mode": mid["mode"], "hasSrc": mid["hasSrc"],
               "anns": mid["anns"], "output": mid.get("output")})

    # (C) long forced-alignment documents
    docs = long_docs(rnd, 400 if thorough else 150)
    obs2 = vlib.impl_map("drv_annotate", "run_text", docs)
    fails, drifts = tlc_judge("Trace_Annotate", "Trace_Annotate.cfg", obs2, ev, "longdocs", chunk=400)
    total += len(obs2)
    report(fails, [], obs2, "long document", "run_text", docs)
    ev.sample({"long_document_target": docs[0]["target"][:160], "anns": docs[0]["anns"][:4]})

    # (C) every span / pair of spans of short texts with blanks
    sdocs = span_docs(thorough)
    obs5 = vlib.impl_map("drv_annotate", "run_text", sdocs)
    fails, _ = tlc_judge("Trace_Annotate", "Trace_Annotate.cfg", obs5, ev, "spans", chunk=20000)
    total += len(obs5)
    report(fails, [], obs5, "short text, every span", "run_text", sdocs)
    ev.cov["short_text_span_sets"] = len(obs5)

    # (C) the real-world pipeline on generated markup: clean -> get_citations -> annotate the source
    # markup with the returned spans (span / full span / span with pin cite), skip and wrap
    import chk_markup
    import chk_extract
    import gendocs
    mk = chk_markup.documents(rnd, 400 if thorough else 120)
    gd = list(gendocs.pairs())
    rnd.shuffle(gd)
    mk += [chk_extract.to_markup(d, rnd) for d in gd[: (1500 if thorough else 300)]]
    pitems = []
    for i, m in enumerate(mk):
        for mode in ("skip", "wrap", "unchecked"):
            pitems.append({"markup": m, "steps": [["html", "all_whitespace"], ["html"], ["html", "inline_whitespace"]][i % 3],
                           "mode": mode, "dmp": i % 5 != 0, "which": ["span", "full", "pin"][(i // 3) % 3]})
    obs4 = vlib.impl_map("drv_annotate", "run_pipeline", pitems)
    fails, _ = tlc_judge("Trace_Annotate", "Trace_Annotate.cfg", obs4, ev, "pipeline", chunk=1500)
    total += len(obs4)
    report(fails, [], obs4, "markup pipeline", "run_pipeline", pitems)
    ev.cov["pipeline_documents"] = len(mk)
    ev.cov["pipeline_annotations"] = sum(len(o["anns"]) for o in obs4)
    ev.sample({"pipeline_markup": mk[0][:160], "annotated": (obs4[0].get("output") or "")[:200]})

    # (C) ANY source text (C09): arbitrary string pairs (insertions, deletions, replacements, unrelated texts, empty
    # texts) through annotate_citations with random span sets (unsorted input, overlapping / empty / touching spans)
    pairs = string_pairs(rnd, 20000 if thorough else 4000)
    adocs = []
    for pr in pairs[:: 2]:
        n = len(pr["a"])
        anns = sorted([sorted([rnd.randint(0, n), rnd.randint(0, n)]) for _ in range(rnd.randint(0, 3))])
        adocs.append({"plain": pr["a"], "target": pr["b"], "hasSrc": True, "mode": rnd.choice(["unchecked", "skip", "wrap"]),
                      "anns": anns, "dmp": pr["dmp"]})
    obs6 = vlib.impl_map("drv_annotate", "run_text", adocs)
    fails, _ = tlc_judge("Trace_Annotate", "Trace_Annotate.cfg", obs6, ev, "anysource", chunk=5000)
    total += len(obs6)
    report(fails, [], obs6, "arbitrary plain / source pair", "run_text", adocs)
    ev.cov["arbitrary_source_pairs"] = len(obs6)

    # (C) arbitrary string pairs through SpanUpdater, both engines
    obs3 = vlib.impl_map("drv_annotate", "run_updater", pairs)
    fails, drifts = tlc_judge("Trace_SpanUpdater", "Trace_SpanUpdater.cfg", obs3, ev, "pairs")
    total += len(obs3)
    for ix, cl in fails:
        if cl in mine:
            vd.violation(cl, {"kind": "string pair", **pairs[ix], "observed": obs3[ix]},
                         {"clause": cl, "dmp": pairs[ix]["dmp"]},
                         judge=vlib.J("Trace_SpanUpdater", "Trace_SpanUpdater.cfg", obs3[ix]), rerun=vlib.R("drv_annotate", "run_updater", pairs[ix]))
    for ix, rest in drifts:
        vd.spec_drift("SpanUpdater", f"pair {pairs[ix]!r} script={obs3[ix]['script']}")
    ev.sample({"string_pair": pairs[0], "script": obs3[0]["script"]})

    ev.cov["traces_validated_against_impl"] = total
    ev.cov["evaluations"] = total
    ev.cov["distinct_nontrivial"] = len(cfgs) + len({(d["plain"], d["target"], d["mode"]) for d in docs}) + len({(p["a"], p["b"]) for p in pairs})
    ev.cov["rule"] = ("every terminal configuration of the emit instance of MC_Annotate (distinct by construction), run with one or both "
                      "diff engines; seeded long multi-line forced-alignment documents x 3 modes x 2 engines; seeded string pairs x 2 engines")
    ev.cov["exhaustive"] = True
    ev.cov["clauses_judged"] = sorted(mine)
    ev.assumptions = ["spans are cut at token boundaries (text tokens of length 1 give character granularity); annotation offsets inside a tag are not explored",
                      "lxml is the well-formedness judge, as the property names it", "TLC, Json community module"]
    ev.write(vd)
    return vd.exit_code()


if __name__ == "__main__":
    pid = sys.argv[1]
    vlib.main_wrapper(pid, lambda: main(pid))
