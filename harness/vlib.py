"""Common machinery for the eyecite TLA+ checks.

Everything here is stdlib-only and runs under /venv/bin/python (the interpreter
that can import eyecite from /repo's working tree).

 * run_tlc            – run TLC on spec/<module>.tla with a cfg, parse its summary
 * Evidence           – collect coverage numbers and write evidence/<id>.json
 * Verdict            – collect VIOLATION / KNOWN-FINDING / SPEC-DRIFT lines, exit code
 * known findings     – /verif/known_findings.json, never written at run time
 * impl_pool          – run a driver function over many inputs in fresh worker
                        processes that import eyecite from /repo with the guard on
"""
from __future__ import annotations

import hashlib
import json
import os
import re
import shutil
import subprocess
import sys
import time
from pathlib import Path

VERIF = Path(__file__).resolve().parent.parent
SPEC = VERIF / "spec"
WORK = VERIF / ".work"
REPO = Path(os.environ.get("EYECITE_REPO", "/repo"))
PY = os.environ.get("EYECITE_PY", "/venv/bin/python")
JAR = "/opt/veriftools/tla/tla2tools.jar:/opt/veriftools/tla/CommunityModules-deps.jar"
GUARD = "EYECITE_VERIF"
NCPU = min(16, os.cpu_count() or 4)


def tier() -> str:
    t = os.environ.get("VERIF_TIER", "quick")
    return t if t in ("quick", "thorough") else "quick"


def seed() -> int:
    try:
        return int(os.environ.get("VERIF_SEED", "0"))
    except ValueError:
        return 0


class MachineryError(Exception):
    """TLC crashed, output unparsable, timeout: exit 2, never a VIOLATION."""


# --------------------------------------------------------------------------- TLC
class TLCResult:
    def __init__(self, out: str, rc: int, wall: float):
        self.out, self.rc, self.wall = out, rc, wall
        m = re.search(r"(\d[\d,]*) states generated, (\d[\d,]*) distinct states found", out)
        self.generated = int(m.group(1).replace(",", "")) if m else 0
        self.distinct = int(m.group(2).replace(",", "")) if m else 0
        m = re.search(r"The depth of the complete state graph search is (\d+)", out)
        self.depth = int(m.group(1)) if m else 0
        self.finished = "Model checking completed. No error has been found." in out
        self.invariant_violated = re.findall(r"Error: Invariant (\S+) is violated", out)
        self.action_prop_violated = re.findall(r"Error: Action property (\S+) is violated", out)
        self.errors = [l for l in out.splitlines() if l.startswith("Error:")]
        self.coverage = {}
        for m in re.finditer(r"^<(\w+) line \d+, col \d+ to line \d+, col \d+ of module (\w+)>: (\d+):(\d+)", out, re.M):
            self.coverage[m.group(1)] = [int(m.group(3)), int(m.group(4))]

    def printed(self):
        """Values printed with PrintT, one per line (TLC prints tuples/records/strings)."""
        return [l for l in self.out.splitlines() if l.startswith(("<<", "[", '"', "{"))]


def run_tlc(module: str, cfg: str | None = None, *, workers: int | str = "auto", timeout: int = 600,
            env: dict | None = None, simulate: str | None = None, depth: int | None = None,
            coverage: bool = False, extra: list | None = None, deadlock: bool = True,
            workdir: Path | None = None, dfs: bool = False) -> TLCResult:
    """Run TLC on SPEC/<module>.tla.  Raises MachineryError on crash/timeout."""
    WORK.mkdir(exist_ok=True)
    meta = Path(workdir) if workdir else WORK / f"tlc-{module}-{os.getpid()}-{time.time_ns()}"
    meta.mkdir(parents=True, exist_ok=True)
    jopts = ["-XX:+UseParallelGC", "-Xss16m", "-Xmx12g"]
    if dfs:
        jopts.append("-Dtlc2.tool.queue.IStateQueue=StateDeque")
    cmd = ["java", *jopts, "-cp", JAR, "tlc2.TLC",
           "-workers", str(workers if workers != "auto" else NCPU),
           "-metadir", str(meta), "-noGenerateSpecTE"]
    if cfg:
        cmd += ["-config", str(cfg)]
    if not deadlock:
        cmd += ["-deadlock"]
    if coverage:
        cmd += ["-coverage", "1"]
    if simulate:
        cmd += ["-simulate", simulate]
    if depth:
        cmd += ["-depth", str(depth)]
    if extra:
        cmd += list(extra)
    cmd.append(f"{module}.tla")
    e = dict(os.environ)
    e.pop("JAVA_TOOL_OPTIONS", None)
    if env:
        e.update({k: str(v) for k, v in env.items()})
    t0 = time.time()
    try:
        p = subprocess.run(cmd, cwd=SPEC, env=e, capture_output=True, text=True, timeout=timeout)
    except subprocess.TimeoutExpired as ex:
        subprocess.run(["pkill", "-f", str(meta)], check=False)
        shutil.rmtree(meta, ignore_errors=True)
        raise MachineryError(f"TLC timeout after {timeout}s on {module} {cfg}") from ex
    shutil.rmtree(meta, ignore_errors=True)
    r = TLCResult(p.stdout + p.stderr, p.returncode, time.time() - t0)
    return r


def tlc_must_pass(r: TLCResult, what: str):
    """Model checking run expected to succeed: otherwise machinery/model failure."""
    if not r.finished:
        tail = "\n".join(r.out.splitlines()[-40:])
        raise MachineryError(f"TLC did not complete cleanly for {what} (rc={r.rc}):\n{tail}")


# ------------------------------------------------------------------ evidence etc.
def sha(obj) -> str:
    return hashlib.sha256(json.dumps(obj, sort_keys=True, default=str).encode()).hexdigest()[:16]


class Verdict:
    def __init__(self, pid: str):
        self.pid = pid
        self.violations = []
        self.known = []
        self.drift = []
        self.kf = load_known_findings().get(pid, [])
        self._known_printed = set()

    def violation(self, clause: str, case: dict, signature: dict | None = None, judge: dict | None = None,
                  rerun: dict | None = None):
        """Report one failing case.  `signature` is the abstract mechanism
        signature; if it matches an open known finding the case is a
        KNOWN-FINDING, otherwise a VIOLATION with a replay file.
        `judge` (see J) stores the judged trace so that `./check Cnn --replay file` can re-judge it with
        TLC; `rerun` (see R) stores the driver call that produced it, so that the replay first runs the
        current code on the same input again."""
        signature = signature or {}
        for k in self.kf:
            if k.get("status", "open") != "open":
                continue
            if k.get("clause") not in (None, clause):
                continue
            ksig = k.get("signature", {})
            if all(signature.get(a) == b for a, b in ksig.items()):
                key = k["id"]
                if key not in self._known_printed:
                    self._known_printed.add(key)
                    print(f"KNOWN-FINDING: property={self.pid} {k['what']}", flush=True)
                self.known.append((key, clause))
                return
        rec = {"property": self.pid, "clause": clause, "signature": signature, "case": case,
               "replay_cmd": f"./check {self.pid} --replay <this file>"}
        if judge:
            rec["judge"] = judge
        if rerun:
            rec["rerun"] = rerun
        d = (VERIF / "replays" if str(REPO) == "/repo" else WORK / "replays-scratch") / self.pid
        d.mkdir(parents=True, exist_ok=True)
        path = d / f"{sha(rec)}.json"
        path.write_text(json.dumps(rec, indent=1, default=str))
        if len(self.violations) < 25:
            print(f"VIOLATION property={self.pid} replay={path}  clause={clause}", flush=True)
        self.violations.append(str(path))

    def spec_drift(self, component: str, detail: str):
        if len(self.drift) < 10:
            print(f"SPEC-DRIFT component={component} {detail}", flush=True)
        self.drift.append((component, detail))

    def exit_code(self) -> int:
        return 1 if self.violations else 0


def load_known_findings() -> dict:
    p = VERIF / "known_findings.json"
    if not p.exists():
        return {}
    data = json.loads(p.read_text())
    out = {}
    for e in data.get("findings", []):
        out.setdefault(e["property"], []).append(e)
    return out


class Evidence:
    def __init__(self, pid: str, level: str = "model_checking"):
        self.pid, self.level = pid, level
        self.t0 = time.time()
        self.cov = {"states": 0, "transitions": 0, "traces_validated_against_impl": 0,
                    "samples": [], "evaluations": 0, "distinct_nontrivial": 0, "rule": "",
                    "tlc_runs": [], "exhaustive": False}
        self.assumptions = []

    def add_tlc(self, name: str, r: TLCResult, constants: str = ""):
        self.cov["states"] += r.distinct
        self.cov["transitions"] += r.generated
        run = {"name": name, "distinct_states": r.distinct, "states_generated": r.generated,
               "depth": r.depth, "wall_s": round(r.wall, 1), "constants": constants}
        if r.coverage:
            run["actions"] = r.coverage
            run["actions_never_taken"] = [a for a, v in r.coverage.items() if v[0] == 0]
        self.cov["tlc_runs"].append(run)

    def sample(self, s):
        if len(self.cov["samples"]) < 8:
            self.cov["samples"].append(s)

    def add_hits(self, out: str):
        """Vacuity accounting (spec/Hits.tla): sum the <<"HIT", tid, mask>> lines of one TLC run
        per clause, using the <<"CLAUSES", json>> line of the same run for the bit order."""
        names = None
        for line in out.splitlines():
            if line.startswith('<<"CLAUSES", '):
                names = json.loads(json.loads(line[13:-2]))
                break
        if names is None:
            return
        hits = self.cov.setdefault("clause_exercised", {})
        for c in names:
            hits.setdefault(c, 0)
        for line in out.splitlines():
            if line.startswith('<<"HIT", '):
                m = re.match(r'^<<"HIT", \d+, (\d+)>>$', line)
                if not m:
                    raise MachineryError(f"unparsable HIT line: {line[:120]}")
                mask = int(m.group(1))
                for i, c in enumerate(names):
                    if mask >> i & 1:
                        hits[c] += 1

    def write(self, verdict: Verdict, extra: dict | None = None):
        # clauses of this property that no recorded trace exercised (premise never true): named, not failed
        hits = self.cov.get("clause_exercised")
        if hits is not None:
            never = sorted(c for c, n in hits.items() if c.startswith(self.pid + ".") and n == 0)
            self.cov["clauses_never_exercised"] = never
            for c in never:
                print(f"NOTE property={self.pid} clause={c} was never exercised by a recorded trace (vacuous on this run)")
        cov = dict(self.cov)
        if extra:
            cov.update(extra)
        cov["spec_drift"] = len(verdict.drift)
        cov["known_findings_seen"] = sorted({k for k, _ in verdict.known})
        if not cov["samples"]:
            cov["samples"] = ["(none)"]
        ev = {"property_id": self.pid, "tier": tier(), "seed": seed(), "level": self.level,
              "coverage": cov, "assumptions": self.assumptions,
              "wall_s": round(time.time() - self.t0, 2), "violations": len(verdict.violations)}
        # evidence/ describes /repo itself; a run against a scratch tree (EYECITE_REPO, self-tests) writes elsewhere
        d = VERIF / "evidence" if str(REPO) == "/repo" else WORK / "evidence-scratch"
        d.mkdir(parents=True, exist_ok=True)
        (d / f"{self.pid}.json").write_text(json.dumps(ev, indent=1, default=str))


# ------------------------------------------------------------- running the impl
def impl_env(extra: dict | None = None) -> dict:
    e = dict(os.environ)
    # the library is judged as users run it: the hook guard is OFF unless a driver asks for it
    # (only the step-level conformance layer of C02/C17 does, through env={GUARD: "1"})
    e.pop(GUARD, None)
    e["PYTHONPATH"] = f"{REPO}:{VERIF / 'harness'}"
    e.setdefault("PYTHONHASHSEED", "0")
    e["PYTHONDONTWRITEBYTECODE"] = "1"
    if extra:
        e.update({k: str(v) for k, v in extra.items()})
    return e


def impl_run(driver: str, func: str, payload, *, env: dict | None = None, timeout: int = 1800):
    """Run harness/<driver>.py:<func>(payload) in ONE fresh interpreter that
    imports eyecite from REPO's working tree; returns the JSON result."""
    WORK.mkdir(exist_ok=True)
    inp = WORK / f"in-{os.getpid()}-{time.time_ns()}.json"
    outp = inp.with_suffix(".out.json")
    inp.write_text(json.dumps(payload))
    code = (f"import json,sys; import {driver} as d; "
            f"r=getattr(d,'{func}')(json.load(open(sys.argv[1]))); "
            f"json.dump(r,open(sys.argv[2],'w'))")
    try:
        p = subprocess.run([PY, "-c", code, str(inp), str(outp)], env=impl_env(env),
                           capture_output=True, text=True, timeout=timeout, cwd=str(REPO))
        if p.returncode != 0:
            raise MachineryError(f"driver {driver}.{func} failed rc={p.returncode}:\n{p.stderr[-3000:]}")
        return json.loads(outp.read_text())
    finally:
        inp.unlink(missing_ok=True)
        outp.unlink(missing_ok=True)


def impl_map(driver: str, func: str, items: list, *, chunks: int | None = None,
             env: dict | None = None, timeout: int = 1800, common=None) -> list:
    """Parallel impl_run: split items over fresh interpreters, keep order.
    The driver function receives {"items": [...], "common": common} and must
    return a list of the same length."""
    n = chunks or NCPU
    n = max(1, min(n, len(items)))
    size = (len(items) + n - 1) // n
    parts = [items[i:i + size] for i in range(0, len(items), size)]
    from concurrent.futures import ThreadPoolExecutor
    with ThreadPoolExecutor(len(parts)) as ex:
        futs = [ex.submit(impl_run, driver, func, {"items": part, "common": common},
                          env=env, timeout=timeout) for part in parts]
        res = []
        for f in futs:
            res.extend(f.result())
    return res


def J(module: str, cfg: str, trace, wrap: dict | None = None) -> dict:
    """the judged trace of a failing case (for --replay): trace specification, configuration, the record"""
    return {"module": module, "cfg": cfg, "trace": trace, "wrap": wrap}


def R(driver: str, func: str, item, common=None, env: dict | None = None, hs_cache: bool = False,
      fields: list | None = None) -> dict:
    """the driver call that produced a trace record (for --replay).  fields = None: the driver's result IS the
    judged record; otherwise only these fields of the result are copied into the stored record (the rest of
    it -- the expectation, the input list -- does not depend on the code)"""
    return {"driver": driver, "func": func, "item": item, "common": common, "env": env or {}, "hs_cache": hs_cache,
            "fields": fields}


def replay(pid: str, path: str) -> int:
    """./check Cnn --replay <file>: run the recorded input through the CURRENT code again (when the file
    holds a driver call) and let TLC judge the result with the same trace specification; exit 1 with a
    VIOLATION line iff the recorded clause fails again, 0 if it holds now, 2 if the file cannot be replayed."""
    rec = json.loads(Path(path).read_text())
    j = rec.get("judge")
    if rec.get("property") != pid or not j:
        print(f"ERROR machinery property={pid}: {path} holds no judged trace for {pid} (it documents the failing case only)",
              file=sys.stderr)
        return 2
    trace = j["trace"]
    r = rec.get("rerun")
    if r:
        env = dict(r.get("env") or {})
        hs_dir = None
        if r.get("hs_cache"):
            hs_dir = WORK / f"hs-{os.getpid()}-{time.time_ns()}"
            hs_dir.mkdir(parents=True)
            env["VERIF_HS_CACHE"] = str(hs_dir)
        try:
            fresh = impl_map(r["driver"], r["func"], [r["item"]], common=r.get("common"), env=env)[0]
            trace = fresh if not r.get("fields") else {**trace, **{k: fresh[k] for k in r["fields"]}}
        finally:
            if hs_dir:
                shutil.rmtree(hs_dir, ignore_errors=True)
        print(f"REPLAY re-ran {r['driver']}.{r['func']} on the recorded input with the current code", flush=True)
    else:
        print("REPLAY re-judging the recorded observation (this case has no single driver call to re-run)", flush=True)
    ev = Evidence(pid)      # never written: a replay does not produce evidence
    if j["module"] == "Trace_Eyecite":
        # a session is a behaviour iff it is consumed to the end; a raised call is reported as FAIL
        WORK.mkdir(exist_ok=True)
        tf = WORK / f"trace-{os.getpid()}-{time.time_ns()}.json"
        tf.write_text(json.dumps([trace]))
        try:
            r = run_tlc(j["module"], j["cfg"], env={"TRACE_FILE": str(tf)}, timeout=600)
        finally:
            tf.unlink(missing_ok=True)
        tlc_must_pass(r, "Trace_Eyecite replay")
        raised = [e for e in trace["events"] if e.get("raised")]
        if '<<"FAIL", 1, "C04.noraise">>' in r.out or raised:
            print(f"REPLAY call {raised[0]['ev'] if raised else '?'} raised: {raised[0]['raised'] if raised else ''}", flush=True)
            print(f"VIOLATION property={pid} replay={path}  clause={rec['clause']}", flush=True)
            return 1
        done = '<<"DONE", 1>>' in r.out
        print("REPLAY session " + ("accepted" if done else "rejected without a raised call (SPEC-DRIFT)"), flush=True)
        return 0
    w = j.get("wrap")
    fails, drifts = tlc_judge(j["module"], j["cfg"], [trace], ev, "replay",
                              wrap=(lambda part: {**w, "traces": part}) if w else None)
    for _, cl in fails:
        print(f"REPLAY clause {cl} fails", flush=True)
    if any(cl == rec["clause"] for _, cl in fails):
        print(f"VIOLATION property={pid} replay={path}  clause={rec['clause']}", flush=True)
        return 1
    print(f"REPLAY clause {rec['clause']} holds on this input now", flush=True)
    return 0


def main_wrapper(pid: str, fn):
    """Uniform entry point: exit 0/1 from the verdict, 2 on machinery failure."""
    try:
        rc = replay(pid, os.environ["VERIF_REPLAY"]) if os.environ.get("VERIF_REPLAY") else fn()
    except MachineryError as e:
        print(f"ERROR machinery property={pid}: {e}", file=sys.stderr, flush=True)
        sys.exit(2)
    except SystemExit:
        raise
    except BaseException as e:  # noqa: BLE001 - a crash of the harness is a machinery failure (2), never exit code 1
        import traceback
        traceback.print_exc()
        print(f"ERROR machinery property={pid}: harness crashed: {type(e).__name__}: {e}", file=sys.stderr, flush=True)
        sys.exit(2)
    finally:
        # scratch is removed at the end of a run
        if WORK.exists():
            for p in WORK.glob(f"*-{os.getpid()}-*"):
                if p.is_dir():
                    shutil.rmtree(p, ignore_errors=True)
                else:
                    p.unlink(missing_ok=True)
    sys.exit(rc)


# ------------------------------------------------------- generic TLC trace judge
def tlc_judge(module: str, cfg: str, traces: list, ev: "Evidence", label: str, chunk: int = 40000,
              wrap=None, timeout: int = 1700):
    """Write `traces` (JSON) in chunks, run the trace specification under TLC, collect
    <<"FAIL", tid, clause>> / <<"DRIFT", tid, ...>> / <<"DONE", tid>> lines.
    Returns (fails [(index, clause)], drifts [(index, rest)]) with 0-based indices."""
    fails, drifts = [], []
    WORK.mkdir(exist_ok=True)
    for b in range(0, len(traces), chunk):
        part = traces[b:b + chunk]
        tf = WORK / f"trace-{os.getpid()}-{time.time_ns()}.json"
        tf.write_text(json.dumps(wrap(part) if wrap else part))
        try:
            r = run_tlc(module, cfg, env={"TRACE_FILE": str(tf)}, timeout=timeout)
        finally:
            tf.unlink(missing_ok=True)
        tlc_must_pass(r, f"{module} {label}")
        done = set()
        for line in r.out.splitlines():
            if line.startswith('<<"FAIL", '):
                m = re.match(r'^<<"FAIL", (\d+), "([\w.]+)">>$', line)
                if not m:
                    raise MachineryError(f"unparsable line from {module}: {line[:200]}")
                fails.append((b + int(m.group(1)) - 1, m.group(2)))
            elif line.startswith('<<"DRIFT", '):
                m = re.match(r'^<<"DRIFT", (\d+)(.*)>>$', line)
                drifts.append((b + int(m.group(1)) - 1, m.group(2)))
            elif line.startswith('<<"DONE", '):
                done.add(int(line[10:-2]))
        if len(done) != len(part):
            raise MachineryError(f"{module} {label}: {len(done)} of {len(part)} traces judged to the end")
        ev.add_tlc(f"{module}[{label}#{b // chunk}]", r, f"{len(part)} recorded traces")
        ev.add_hits(r.out)
    return fails, drifts
