"""Driver for eyecite.clean (eyecite from /repo).
classes -> characters: two representatives per class, alternating with the variant number."""
import itertools

REPS = {"sp": [" ", " "], "tab": ["\t", "\t"], "nl": ["\n", "\r", "\x0c"], "nbsp": ["\xa0", " "],
        "us": ["_", "_"], "ch": ["a", "§", "1"]}
NAMES = ["inline_whitespace", "all_whitespace", "underscores"]


def _cp(s):
    return [ord(c) for c in s]


def step_lists():
    out = []
    for n in (1, 2, 3):
        out += [list(p) for p in itertools.product(NAMES, repeat=n)]
    out += [["bogus"], ["underscores", "bogus"], ["bogus", "all_whitespace"], ["inline_whitespace", "no_such", "underscores"], []]
    # custom callables as steps ("@rev": reverse, "@tail": drop the first character), a non-callable object ("#int")
    out += [["@rev"], ["@tail"], ["@rev", "inline_whitespace"], ["all_whitespace", "@rev", "all_whitespace"], ["@tail", "underscores", "@rev"],
            ["@rev", "@rev"], ["underscores", "@tail", "@tail"], ["#int"], ["@rev", "#int"], ["inline_whitespace", "@tail", "bogus"]]
    return out


CUSTOM = {"@rev": lambda t: t[::-1], "@tail": lambda t: t[1:], "#int": 5}


def real_steps(st):
    return [CUSTOM.get(s, s) for s in st]


def run_text(payload):
    from eyecite import clean as C
    from eyecite.clean import clean_text
    fn = {"iw": C.inline_whitespace, "aw": C.all_whitespace, "un": C.underscores}
    lists = step_lists()
    res = []
    for it in payload["items"]:
        cls, v = it["cls"], it["v"]
        x = "".join(REPS[c][(v + i) % len(REPS[c])] for i, c in enumerate(cls))
        o = {"kind": "text", "cls": cls, "x": _cp(x), "lists": []}
        for k, f in fn.items():
            f1 = f(x)
            o[k] = {"f1": _cp(f1), "f2": _cp(f(f1))}
        if it.get("lists"):
            for st in lists:
                e = {"steps": st, "whole": [], "seq": [], "werr": "", "serr": "", "whole2": [], "seq2": []}
                try:
                    w = clean_text(x, real_steps(st))
                    e["whole"] = _cp(w)
                    # the same call again on its own output, immediately (same step list object contents)
                    e["whole2"] = _cp(clean_text(w, real_steps(st)))
                    y2 = w
                    for s in st:
                        y2 = clean_text(y2, real_steps([s]))
                    e["seq2"] = _cp(y2)
                except Exception as ex:  # noqa: BLE001
                    e["werr"] = type(ex).__name__
                try:
                    y = x
                    for s in st:
                        y = clean_text(y, real_steps([s]))
                    e["seq"] = _cp(y)
                except Exception as ex:  # noqa: BLE001
                    e["serr"] = type(ex).__name__
                o["lists"].append(e)
        res.append(o)
    return res


def text_of(i, blank, v):
    if blank:
        return [" ", "\n", " \t "][(i + v) % 3], None
    base = f"t{i}"
    k = (i + v) % 4
    if k == 1:
        return "&amp;" + base, "&" + base
    if k == 2:
        return base + "&nbsp;x", base + "\xa0x"
    if k == 3:
        # internal whitespace is kept verbatim (leading whitespace of a text node is subject to
        # the HTML parser's body-start normalisation, so the generator does not write it)
        return base + " \n" + base, base + " \n" + base
    return base, base


def run_html(payload):
    from eyecite.clean import html
    res = []
    for it in payload["items"]:
        doc, v = it["doc"], it["v"]
        parts, txt = [], {}
        for t in doc:
            if t["k"] == "open":
                parts.append(f"<{t['tag']}>")
            elif t["k"] == "close":
                parts.append(f"</{t['tag']}>")
            elif t["k"] == "void":
                parts.append('<link rel="x">')
            else:
                raw, dec = text_of(t["id"], t["blank"], v)
                parts.append(raw)
                txt[t["id"]] = _cp(dec if dec is not None else raw)
        markup = "".join(parts)
        n = max(txt) if txt else 0
        o = {"kind": "html", "doc": doc, "txt": [txt.get(i, []) for i in range(1, n + 1)], "markup": markup,
             "out": [], "raised": ""}
        try:
            o["out"] = _cp(html(markup))
        except Exception as ex:  # noqa: BLE001
            o["raised"] = f"{type(ex).__name__}: {ex}"
        res.append(o)
    return res
