"""Driver for the extraction family (C01-C05, C17-C19): runs the real get_citations /
filter_citations / resolve_citations / annotate_citations (eyecite from /repo) and projects the
results to plain JSON for the TLC monitors.

Projection of a citation (DESIGN 3.10 Forms/Filter rows):
  cls, ts/te (token offsets), s/e (span), fs/fe (full span), ps/pe (span_with_pincite),
  mt (matched_text, code points), groups, meta (metadata fields, str or None), year,
  exact / var (candidate editions as "reporter|edition"), guess, ref (is ReferenceCitation)
"""
import os
import tempfile

_TOK = {}


def _cp(s):
    return [ord(c) for c in s]


def tokenizer(name):
    if name not in _TOK:
        from eyecite.tokenizers import HyperscanTokenizer, Tokenizer, default_tokenizer
        if name == "ref":
            _TOK[name] = Tokenizer()
        elif name == "aho":
            _TOK[name] = default_tokenizer
        else:
            d = os.environ.get("VERIF_HS_CACHE") or tempfile.mkdtemp(prefix="hs")
            # history: the default Hyperscan tokenizer is never the FIRST Hyperscan tokenizer of the process -- one over
            # a custom extractor list (same cache directory) is built and used before it
            from eyecite.tokenizers import EXTRACTORS
            other = HyperscanTokenizer(cache_dir=d, extractors=list(reversed(EXTRACTORS[-5:])) + EXTRACTORS[:40:8])
            other.tokenize("See Foo, supra, at 5; id. § 3.")
            _TOK[name] = HyperscanTokenizer(cache_dir=d)
    return _TOK[name]


def ed(e):
    return f"{e.reporter.short_name}|{e.reporter.name}|{e.short_name}|{e.start.year if e.start else ''}"


def ed_years(e):
    return [e.start.year if e.start else -1, e.end.year if e.end else -1]


def proj(c, idx=None):
    from eyecite.models import ReferenceCitation, ResourceCitation
    s, e = c.span()
    fs, fe = c.full_span()
    ps, pe = c.span_with_pincite()
    d = {"cls": type(c).__name__, "ts": c.token.start, "te": c.token.end, "s": s, "e": e, "fs": fs, "fe": fe,
         "ps": ps, "pe": pe, "mt": _cp(c.matched_text()), "ref": isinstance(c, ReferenceCitation),
         "groups": {k: ("" if v is None else str(v)) for k, v in c.groups.items()},
         "gnone": sorted(k for k, v in c.groups.items() if v is None),
         "meta": {k: ("" if v is None else str(v)) for k, v in c.metadata.__dict__.items()},
         "mnone": sorted(k for k, v in c.metadata.__dict__.items() if v is None),
         "res": isinstance(c, ResourceCitation), "year": -1, "exact": [], "var": [], "guess": "",
         "raw_fss": -1 if c.full_span_start is None else c.full_span_start}
    if isinstance(c, ResourceCitation):
        d["year"] = -1 if c.year is None else c.year
        d["exact"] = [ed(x) for x in c.exact_editions]
        d["var"] = [ed(x) for x in c.variation_editions]
        d["guess"] = ed(c.edition_guess) if c.edition_guess else ""
    if idx is not None:
        d["id"] = idx
    return d


def extract(text, tok="aho", markup=None, steps=None, remove_ambiguous=False):
    from eyecite import get_citations
    if markup is not None:
        return get_citations(markup_text=markup, clean_steps=steps, tokenizer=tokenizer(tok),
                             remove_ambiguous=remove_ambiguous)
    return get_citations(text, tokenizer=tokenizer(tok), remove_ambiguous=remove_ambiguous)


def run_docs(payload):
    """items: {text, tok}; returns text + projected citations (+ optional merge histories)"""
    from eyecite.find import extract_reference_citations
    from eyecite.helpers import filter_citations
    from eyecite.models import Document, FullCaseCitation
    want_merge = payload["common"].get("merge", False) if payload.get("common") else False
    res = []
    for it in payload["items"]:
        o = {"text": [], "tok": it.get("tok", "aho"), "raised": "", "cites": [], "merges": []}
        try:
            if "markup" in it:                   # markup mode: offsets refer to the cleaned text
                from eyecite import clean_text
                text = clean_text(it["markup"], it["steps"])
                o["text"] = _cp(text)
                cs = extract(None, it.get("tok", "aho"), markup=it["markup"], steps=it["steps"], remove_ambiguous=it.get("ra", False))
            else:
                text = it["text"]
                o["text"] = _cp(text)
                cs = extract(text, it.get("tok", "aho"), remove_ambiguous=it.get("ra", False))
            o["cites"] = [proj(c, i + 1) for i, c in enumerate(cs)]
            if want_merge:
                ids = {id(c): i + 1 for i, c in enumerate(cs)}
                doc = Document(plain_text=text)
                fulls = [c for c in cs if isinstance(c, FullCaseCitation)]
                # history 1: references of every full citation (party names)
                # history 2: with resolved case names set on the full citations first
                for variant in (0, 1):
                    ext = list(cs)
                    for k, f in enumerate(fulls):
                        if variant:
                            words = [w for w in (f.metadata.plaintiff or "").split() + (f.metadata.defendant or "").split()
                                     if len(w) > 2 and w[0].isupper()]
                            f.metadata.resolved_case_name_short = words[0] if words else None
                            f.metadata.resolved_case_name = " v. ".join(words[:2]) if len(words) > 1 else None
                        ext.extend(extract_reference_citations(f, doc))
                    once = filter_citations(list(ext))
                    twice = filter_citations(list(once))
                    again = filter_citations(list(once) + [c for c in ext if c not in once and hasattr(c, "span")][:0])
                    o["merges"].append({
                        "ext": [dict(proj(c), id=ids.get(id(c), 0)) for c in ext],
                        "once": [dict(proj(c), id=ids.get(id(c), 0)) for c in once],
                        "twice_same": [id(c) for c in once] == [id(c) for c in twice]})
                    for f in fulls:
                        f.metadata.resolved_case_name_short = None
                        f.metadata.resolved_case_name = None
        except Exception as ex:  # noqa: BLE001
            o["raised"] = f"{type(ex).__name__}: {ex}"
        res.append(o)
    return res


def run_filter_lists(payload):
    """MC_Filter lists rebuilt from real citation objects and pushed through the real
    filter_citations, once and twice."""
    from eyecite.helpers import filter_citations
    from eyecite.models import (CaseReferenceToken, CitationToken, FullCaseCitation, IdCitation, IdToken,
                                ReferenceCitation)
    res = []
    for lst in payload["items"]:
        objs = []
        for c in lst:
            kw = dict(span_start=c["s"], span_end=c["e"], full_span_start=c["fs"], full_span_end=c["fe"])
            if c["kind"] == "ref":
                o = ReferenceCitation(CaseReferenceToken("Name at 1", c["s"], c["e"]), 0, metadata={"plaintiff": "Name"}, **kw)
            elif c["kind"] == "fc":
                o = FullCaseCitation(CitationToken("1 U.S. 1", c["s"], c["e"], groups={"volume": "1", "reporter": "U.S.", "page": str(c["id"])}), 0, **kw)
            else:
                o = IdCitation(IdToken("Id.", c["s"], c["e"]), 0, **kw)
            o._vid = c["id"]
            objs.append(o)
        out = {"raised": "", "once": [], "twice": []}
        try:
            once = filter_citations(list(objs))
            out["once"] = [o._vid for o in once]
            out["twice"] = [o._vid for o in filter_citations(list(once))]
        except Exception as ex:  # noqa: BLE001
            out["raised"] = f"{type(ex).__name__}: {ex}"
        res.append(out)
    return res


def edition_strings(payload):
    """reporter strings with their candidate editions, read from the tokenizer's lookup"""
    from eyecite.tokenizers import EDITIONS_LOOKUP
    out = []
    for name, eds in EDITIONS_LOOKUP.items():
        uniq = {ed(e): ed_years(e) for e in eds}
        out.append({"string": name, "eds": uniq, "sources": sorted({e.reporter.source for e in eds})})
    return out


def run_editions(payload):
    """items: {text}; default and remove_ambiguous extraction, edition table, today"""
    from datetime import date
    res = []
    for it in payload["items"]:
        text = it["text"]
        o = {"text": text, "today": date.today().year, "raised": "", "def": [], "ra": [], "eds": {}}
        try:
            d = extract(text, "aho")
            r = extract(text, "aho", remove_ambiguous=True)
            for c in d:
                for e in getattr(c, "all_editions", ()):
                    o["eds"][ed(e)] = ed_years(e)
            def slim(c, i):
                p = proj(c, i)
                for k in ("groups", "gnone", "mnone", "mt"):
                    p.pop(k, None)
                my = p.pop("meta").get("year", "")
                p["myear4"] = int(my[:4]) if my[:4].isdigit() and len(my) >= 4 else -2
                return p
            o["def"] = [slim(c, i + 1) for i, c in enumerate(d)]
            o["ra"] = [slim(c, i + 1) for i, c in enumerate(r)]
        except Exception as ex:  # noqa: BLE001
            o["raised"] = f"{type(ex).__name__}: {ex}"
        res.append(o)
    return res


def db_strings(payload):
    """Ground truth read DIRECTLY from reporters-db (not through eyecite): for every reporter
    string (edition name or variation) the set of editions it denotes, exact names first."""
    from reporters_db import REPORTERS
    exact, var = {}, {}
    multi_tpl = set()
    for key, cluster in REPORTERS.items():
        for ri, src in enumerate(cluster):
            for ename, edata in src["editions"].items():
                eid = f"{key}#{ri}#{ename}"
                exact.setdefault(ename, set()).add(eid)
                if len(edata.get("regexes") or []) > 1:
                    multi_tpl.add(eid)
            for v, target in src["variations"].items():
                if target in src["editions"]:
                    var.setdefault(v, set()).add(f"{key}#{ri}#{target}")
    out = []
    for s in sorted(set(exact) | set(var)):
        cands = exact.get(s) or var.get(s)
        eds = sorted(cands)
        out.append({"string": s, "is_exact": s in exact, "editions": eds,
                    "canon": eds[0].split("#", 2)[2] if len(eds) == 1 else None,
                    # editions the string ALSO names as a variation although it is an edition name (exact names win)
                    "others": sorted(var.get(s, set()) - set(eds)) if s in exact else []})
    years = {}
    for key, cluster in REPORTERS.items():
        for ri, src in enumerate(cluster):
            for ename, edata in src["editions"].items():
                years[f"{key}#{ri}#{ename}"] = [edata["start"].year if edata["start"] else None,
                                                edata["end"].year if edata["end"] else None]
    return {"strings": out, "years": years}


def run_equality(payload):
    """items: groups; each group is a list of {text, cls, key} (key = ground-truth identity written
    by the generator, or null for 'equal only to itself').  Extracts the first citation of class
    cls from each text and compares all pairs with ==, hash() and Resource()."""
    from eyecite import get_citations
    from eyecite.models import Resource
    res = []
    for group in payload["items"]:
        objs, rows = [], []
        for it in group["members"]:
            try:
                # (a member may ask for another tokenizer: equality must not depend on how the citation was found)
                found = get_citations(it["text"], tokenizer=tokenizer(it["tok"])) if it.get("tok") else get_citations(it["text"])
                cs = [c for c in found if type(c).__name__ == it["cls"]]
            except Exception as ex:  # noqa: BLE001
                cs = []
            c = cs[it.get("nth", 0)] if len(cs) > it.get("nth", 0) else None
            ok = c is not None and (it.get("want") is None or all(
                (c.groups.get(k) or "") == v for k, v in it["want"].items()))
            key = it["key"]
            if key == "@groups" and c is not None:
                # pools of database examples: the written identity is read off the extracted groups
                key = f"{c.groups.get('volume')}|{c.groups.get('page')}|{c.corrected_reporter()}"
                if c.groups.get("page") is None:
                    it = dict(it, selfonly=True)
            rows.append({"text": it["text"], "cls": it["cls"], "key": key, "selfonly": it.get("selfonly", False),
                         "found": bool(ok), "same_as": it.get("same_as", 0)})
            objs.append(c if ok else None)
        n = len(objs)
        raised = ""
        rt = []

        def matrices():
            eq = [[False] * n for _ in range(n)]
            heq = [[False] * n for _ in range(n)]
            req = [[False] * n for _ in range(n)]
            for i in range(n):
                for j in range(n):
                    if objs[i] is None or objs[j] is None:
                        continue
                    eq[i][j] = bool(objs[i] == objs[j])
                    heq[i][j] = hash(objs[i]) == hash(objs[j])
                    if hasattr(objs[i], "exact_editions") and hasattr(objs[j], "exact_editions"):
                        req[i][j] = Resource(objs[i]) == Resource(objs[j]) and hash(Resource(objs[i])) == hash(Resource(objs[j]))
                    else:
                        req[i][j] = eq[i][j]
            return eq, heq, req
        eq, heq, req = [[False] * n for _ in range(n)], [[False] * n for _ in range(n)], [[False] * n for _ in range(n)]
        second = None
        try:
            eq, heq, req = matrices()
            if group.get("resolve_then_again"):
                # history: the objects (already hashed and compared) go through resolve_citations; equality is about their
                # CURRENT volume / page / normalised reporter, so the identities are read off again afterwards
                from eyecite import resolve_citations
                resolve_citations([c for c in objs if c is not None])
                rows2 = []
                for r0, c in zip(rows, objs):
                    r2 = dict(r0)
                    if c is not None and r0["key"] != "ph" and hasattr(c, "corrected_reporter"):
                        r2["key"] = f"{c.groups.get('volume')}|{c.groups.get('page')}|{c.corrected_reporter()}"
                    rows2.append(r2)
                e2, h2, q2 = matrices()
                second = {"rows": rows2, "eq": e2, "heq": h2, "req": q2, "rt": [{"checked": False, "one": True, "equal": True, "fixed": True}] * n,
                          "raised": "", "label": group.get("label", "") + " [after resolve_citations]"}
            for i, it in enumerate(group["members"]):
                r = {"checked": False, "one": True, "equal": True, "fixed": True}
                if it.get("roundtrip") and objs[i] is not None:
                    cc = objs[i].corrected_citation()
                    back = [c for c in get_citations(cc) if type(c).__name__ == it["cls"]]
                    r = {"checked": True, "one": len(back) == 1, "equal": len(back) == 1 and back[0] == objs[i],
                         "fixed": len(back) == 1 and back[0].corrected_citation() == cc, "cc": cc}
                rt.append(r)
        except Exception as ex:  # noqa: BLE001
            raised = f"{type(ex).__name__}: {ex}"
        res.append({"rows": rows, "eq": eq, "heq": heq, "req": req, "rt": rt, "raised": raised, "label": group.get("label", ""),
                    **({"second": second} if second else {})})
    return res


def db_examples(payload):
    from reporters_db import JOURNALS, LAWS, REPORTERS
    out = {"reporters": [], "laws": [], "journals": []}
    for name, db in (("reporters", REPORTERS), ("laws", LAWS), ("journals", JOURNALS)):
        for key, cluster in db.items():
            for src in cluster:
                out[name] += list(src.get("examples") or [])
    return out


C17_FIELDS = ["pin_cite", "year", "plaintiff", "defendant", "antecedent_guess", "extra", "publisher", "month", "day", "volume"]


def witnesses(text, cites):
    """For the TLC monitors (witness checking, DESIGN 2.2): for every textual metadata value the
    offset of an occurrence inside the citation's own extent (full span, else the joint extent of
    the citations that start at the same place), -1 if there is none.  TLC verifies the slice."""
    out = []
    for c in cites:
        fs, fe = c["fs"], c["fe"]
        grp = [d for d in cites if d["fs"] == fs]
        lo, hi = min(d["fs"] for d in grp), max(d["fe"] for d in grp)
        ws = []
        fields = list(C17_FIELDS)
        if c["cls"].startswith("Full"):
            fields.append("parenthetical")
        for f in fields:
            v = c["meta"].get(f, "")
            if not v:
                continue
            off = -1
            if 0 <= fs <= fe <= len(text):
                off = text.find(v, fs, fe)
            if off < 0 and 0 <= lo <= hi <= len(text):
                off = text.find(v, lo, hi)
            ws.append({"f": f, "v": _cp(v), "off": off})
        # pin cite inside the pin-cite span (C02)
        pin = c["meta"].get("pin_cite", "")
        poff = -2
        if pin and c["cls"] in ("FullCaseCitation", "ShortCaseCitation", "SupraCitation", "IdCitation", "ReferenceCitation"):
            poff = text.find(pin, max(c["ps"], 0), max(c["pe"], 0)) if c["ps"] <= c["pe"] else -1
        out.append({"w": ws, "pin": _cp(pin), "poff": poff})
    return out


def run_offsets(payload):
    """items: {text | markup+steps, tok}: citations with offsets, matched text, metadata witnesses"""
    res = []
    for it in payload["items"]:
        o = {"tok": it.get("tok", "aho"), "markup": "markup" in it, "raised": "", "text": [], "cites": []}
        try:
            if "markup" in it:
                from eyecite import clean_text
                plain = clean_text(it["markup"], it["steps"])
                cs = extract(None, it.get("tok", "aho"), markup=it["markup"], steps=it["steps"], remove_ambiguous=it.get("ra", False))
            else:
                plain = it["text"]
                cs = extract(plain, it.get("tok", "aho"), remove_ambiguous=it.get("ra", False))
            o["text"] = _cp(plain)
            ps = [proj(c, i + 1) for i, c in enumerate(cs)]
            ws = witnesses(plain, ps)
            for p, w in zip(ps, ws):
                for k in ("groups", "gnone", "mnone", "meta", "exact", "var"):
                    p.pop(k, None)
                p.update(w)
            o["cites"] = ps
        except Exception as ex:  # noqa: BLE001
            o["raised"] = f"{type(ex).__name__}: {ex}"
        res.append(o)
    return res


KIND = {"FullCaseCitation": "full", "FullLawCitation": "full", "FullJournalCitation": "full", "ShortCaseCitation": "short",
        "SupraCitation": "supra", "IdCitation": "id", "ReferenceCitation": "ref", "UnknownCitation": "unknown"}


def wrapped_spans(out, n_ann):
    """positions (in the text with the inserted strings removed) enclosed by each annotation"""
    import re as _re
    pos, res, open_at = 0, [], {}
    for piece in _re.split(r"(\x01\d+\x02|\x03)", out):
        if not piece:
            continue
        m = _re.fullmatch(r"\x01(\d+)\x02", piece)
        if m:
            open_at[len(res)] = pos
            res.append([pos, pos])
        elif piece == "\x03":
            if res:
                res[-1][1] = pos
        else:
            pos += len(piece)
    return res, pos


def run_pipeline(payload):
    """One recorded session per document: for each tokenizer and remove_ambiguous setting:
    get_citations -> resolve_citations -> annotate_citations in the three modes.
    Every call is logged at its return, on the error path too."""
    from eyecite import annotate_citations, resolve_citations
    res = []
    for it in payload["items"]:
        text = it["text"]
        events = []
        for tok in it["toks"]:
            for ra in (False, True):
                ev = {"ev": "get_citations", "tok": tok, "ra": ra, "cites": [], "raised": ""}
                try:
                    cs = extract(text, tok, remove_ambiguous=ra)
                    if not isinstance(cs, list):
                        raise TypeError("get_citations did not return a list")
                    ev["cites"] = [{"s": c.span()[0], "e": c.span()[1], "kind": KIND.get(type(c).__name__, "unknown")} for c in cs]
                except Exception as ex:  # noqa: BLE001
                    ev["raised"] = f"{type(ex).__name__}: {ex}"[:300]
                    events.append(ev)
                    events.append({"ev": "reset", "raised": ""})
                    continue
                events.append(ev)
                ev = {"ev": "resolve", "groups": [], "raised": ""}
                try:
                    r = resolve_citations(cs)
                    pos = {id(c): i + 1 for i, c in enumerate(cs)}
                    ev["groups"] = [[pos.get(id(c), 0) for c in v] for v in r.values()]
                    if not isinstance(r, dict):
                        raise TypeError("resolve_citations did not return a mapping")
                except Exception as ex:  # noqa: BLE001
                    ev["raised"] = f"{type(ex).__name__}: {ex}"[:300]
                events.append(ev)
                for mode in ("unchecked", "skip", "wrap"):
                    ev = {"ev": "annotate", "mode": mode, "wrapped": [], "exact": False, "raised": ""}
                    try:
                        anns = [(c.span(), f"\x01{k}\x02", "\x03") for k, c in enumerate(cs)]
                        out = annotate_citations(text, anns, unbalanced_tags=mode)
                        if not isinstance(out, str):
                            raise TypeError("annotate_citations did not return a string")
                        w, total = wrapped_spans(out, len(anns))
                        ev["wrapped"] = w
                        ev["exact"] = (mode == "unchecked" or ("<" not in text and ">" not in text)) and "\x01" not in text \
                            and "\x03" not in text
                        ev["stripped_len"] = total
                    except Exception as ex:  # noqa: BLE001
                        ev["raised"] = f"{type(ex).__name__}: {ex}"[:300]
                    events.append(ev)
                events.append({"ev": "reset", "raised": ""})
        res.append({"n": len(text), "events": events})
    return res


def run_markup_sessions(payload):
    """One recorded session per marked-up document (Eyecite.tla, markup flow):
    clean_text -> get_citations(markup_text=..., clean_steps=...) -> two-step merge
    (extract_reference_citations with resolved names + filter_citations) -> resolve_citations on a
    prefix -> annotate_citations(plain, spans, source_text=markup) in the three modes.
    Every call is logged at its return, on the error path too."""
    from eyecite import annotate_citations, clean_text, resolve_citations
    from eyecite.find import extract_reference_citations
    from eyecite.helpers import filter_citations
    from eyecite.models import Document, FullCaseCitation
    res = []

    def cites_of(cs):
        return [{"s": c.span()[0], "e": c.span()[1], "kind": KIND.get(type(c).__name__, "unknown")} for c in cs]
    for it in payload["items"]:
        markup, steps, tok = it["markup"], it["steps"], it.get("tok", "aho")
        events = []
        o = {"n": len(markup), "events": events}
        res.append(o)
        ev = {"ev": "clean", "n_after": 0, "raised": ""}
        try:
            plain = clean_text(markup, steps)
            ev["n_after"] = len(plain)
        except Exception as ex:  # noqa: BLE001
            ev["raised"] = f"{type(ex).__name__}: {ex}"[:300]
            events.append(ev)
            continue
        events.append(ev)
        ev = {"ev": "get_citations", "tok": tok, "ra": False, "cites": [], "raised": ""}
        try:
            cs = extract(None, tok, markup=markup, steps=steps)
            ev["cites"] = cites_of(cs)
        except Exception as ex:  # noqa: BLE001
            ev["raised"] = f"{type(ex).__name__}: {ex}"[:300]
            events.append(ev)
            continue
        events.append(ev)
        ev = {"ev": "merge", "cites": [], "raised": ""}
        try:
            doc = Document(plain_text="", markup_text=markup, clean_steps=steps)
            ext = list(cs)
            for f in [c for c in cs if isinstance(c, FullCaseCitation)]:
                words = [w for w in (f.metadata.plaintiff or "").split() + (f.metadata.defendant or "").split()
                         if len(w) > 2 and w[0].isupper()]
                f.metadata.resolved_case_name_short = words[0] if words else None
                ext.extend(extract_reference_citations(f, doc))
            cs = filter_citations(ext)
            ev["cites"] = cites_of(cs)
        except Exception as ex:  # noqa: BLE001
            ev["raised"] = f"{type(ex).__name__}: {ex}"[:300]
            events.append(ev)
            continue
        events.append(ev)
        upto = it.get("upto", len(cs))
        ev = {"ev": "resolve", "groups": [], "raised": ""}
        try:
            r = resolve_citations(cs[:upto])
            pos = {id(c): i + 1 for i, c in enumerate(cs)}
            ev["groups"] = [[pos.get(id(c), 0) for c in v] for v in r.values()]
        except Exception as ex:  # noqa: BLE001
            ev["raised"] = f"{type(ex).__name__}: {ex}"[:300]
        events.append(ev)
        for mode in ("unchecked", "skip", "wrap"):
            ev = {"ev": "annotate", "mode": mode, "wrapped": [], "exact": False, "raised": ""}
            try:
                anns = [(c.span(), f"\x01{k}\x02", "\x03") for k, c in enumerate(cs)]
                out = annotate_citations(plain, anns, source_text=markup, unbalanced_tags=mode)
                if not isinstance(out, str):
                    raise TypeError("annotate_citations did not return a string")
            except Exception as ex:  # noqa: BLE001
                ev["raised"] = f"{type(ex).__name__}: {ex}"[:300]
            events.append(ev)
    return res


def canon(c):
    import json as _json
    p = proj(c)
    for k in ("id",):
        p.pop(k, None)
    return _json.dumps(p, sort_keys=True)


def run_markup(payload):
    """items: {markup, steps}: markup-mode extraction vs extraction of the cleaned text"""
    from eyecite import clean_text, get_citations
    from eyecite.models import FullCaseCitation, ReferenceCitation
    from eyecite.utils import DISALLOWED_NAMES
    disallowed = set(DISALLOWED_NAMES)

    def valid(name):          # transcription of the name-validity rule (utils.is_valid_name)
        return (isinstance(name, str) and len(name) > 2 and name[0].isupper() and not name.endswith(".")
                and not name.isdigit() and name.lower() not in disallowed)
    res = []
    for it in payload["items"]:
        o = {"markup": it["markup"], "steps": it["steps"], "raised": "", "plain_nonref": [], "markup_nonref": [],
             "refs": [], "n": 0, "text": []}
        try:
            plain = clean_text(it["markup"], it["steps"])
            o["n"] = len(plain)
            o["text"] = _cp(plain)
            a = get_citations(markup_text=it["markup"], clean_steps=it["steps"])
            b = get_citations(plain)
            o["markup_nonref"] = [canon(c) for c in a if not isinstance(c, ReferenceCitation)]
            o["plain_nonref"] = [canon(c) for c in b if not isinstance(c, ReferenceCitation)]
            for mode, cs in (("markup", a), ("plain", b)):
                for k, c in enumerate(cs):
                    if not isinstance(c, ReferenceCitation):
                        continue
                    s, e = c.span()
                    span_text = plain[s:e] if 0 <= s <= e <= len(plain) else ""
                    # witness: an earlier full case citation one of whose valid names occurs in the span text
                    wit = {"full": 0, "name": [], "off": -1, "valid": False}
                    for j, f in enumerate(cs):
                        if not isinstance(f, FullCaseCitation) or f.span()[1] > s:
                            continue
                        for fld in ("plaintiff", "defendant", "resolved_case_name_short", "resolved_case_name"):
                            nm = getattr(f.metadata, fld, None)
                            if nm and valid(nm) and nm in span_text:
                                wit = {"full": j + 1, "name": _cp(nm), "off": s + span_text.find(nm), "valid": True,
                                       "full_e": f.span()[1]}
                                break
                        if wit["valid"]:
                            break
                    o["refs"].append({"mode": mode, "s": s, "e": e, "fs": c.full_span()[0], "fe": c.full_span()[1], "wit": wit,
                                      "text": span_text})
        except Exception as ex:  # noqa: BLE001
            o["raised"] = f"{type(ex).__name__}: {ex}"[:300]
        res.append(o)
    return res


# (one party name carries an apostrophe: the antecedent regexes capture only the part after it)
SC_WORDS = {"a": "Kappa", "b": "O'Lomax", "c": "Mirren", "d": "Noxon", "e": "Pruitt", "f": "Quill"}
SC_RV = {"r1": ("F.2d", "12"), "r2": ("F.3d", "12"), "r3": ("U.S.", "410")}
SC_CLS = {"full": "FullCaseCitation", "short": "ShortCaseCitation", "supra": "SupraCitation", "id": "IdCitation",
          "section": "UnknownCitation"}


# reporter strings that are the NAME of two editions in different reporters (the year picks one; the short form, which has
# no year, is still the same normalised reporter string)
SC_RV_ALT = {"r1": ("Met.", "12", 1845), "r2": ("Wash.", "12", 1895), "r3": ("U.S.", "410", None)}


def render_scenario(cases, items, alt=False):
    parts, spans = [], []
    pos = 0
    for k, it in enumerate(items):
        if it["case"]:
            c = cases[it["case"] - 1]
            rep, vol = SC_RV[c["rv"]]
            if alt:
                rep, vol, fixed_year = SC_RV_ALT[c["rv"]]
            pl, df = SC_WORDS[sorted(c["pl"])[0]], SC_WORDS[sorted(c["df"])[0]]
        if it["kind"] == "full":
            s = f"{pl} v. {df}, {vol} {rep} {c['pg']} ({(fixed_year if alt and fixed_year else 1950 + c['pg'] % 50)})."
        elif it["kind"] == "short":
            s = f"{df}, {vol} {rep}, at {c['pg'] + 2}." if it["ante"] else f"See {vol} {rep}, at {c['pg'] + 2}."
        elif it["kind"] == "supra":
            s = f"{df}, supra, at {c['pg'] + 1}."
        elif it["kind"] == "id":
            # (a filler follows a bare "Id." so that two id. forms are never a single character apart)
            if it["pin"] == -1:
                s = "Id. So held."
            elif it["ante"]:                       # abbreviated page range: "at 103-05"
                s = f"Id. at {it['pin']}-{(it['pin'] + 2) % 100:02d}."
            elif it["pin"] < -1:                   # with a footnote: "at 103, n. 3"
                s = f"Id. at {-it['pin']}, n. 3."
            else:
                s = f"Id. at {it['pin']}."
        else:
            s = "See § 99."
        if k % 3 == 2:
            s += " The court agreed."
        if it.get("filler"):
            from forms import LONG
            s = LONG + s
        spans.append([pos, pos + len(s)])
        parts.append(s)
        pos += len(s) + 1
    return " ".join(parts), spans


def run_scenarios(payload):
    from eyecite import get_citations, resolve_citations
    from eyecite.models import ReferenceCitation
    cases = payload["common"]["cases"]
    res = []
    for items in payload["items"]:
        text, spans = render_scenario(cases, items, alt=bool(payload["common"].get("alt")))
        o = {"text": text, "raised": "", "items": []}
        try:
            cs = get_citations(text)
            r = resolve_citations(cs)
            group = {}
            for gi, (key, lst) in enumerate(r.items()):
                for c in lst:
                    group[id(c)] = gi + 1
            for it, (a, b) in zip(items, spans):
                mine = [c for c in cs if not isinstance(c, ReferenceCitation) and a <= c.span()[0] and c.span()[1] <= b]
                good = len(mine) == 1 and type(mine[0]).__name__ == SC_CLS[it["kind"]]
                o["items"].append({"kind": it["kind"], "case": it["case"], "unamb": it["unamb"], "out": it["out"],
                                   "extracted": good, "group": group.get(id(mine[0]), 0) if good else 0})
            o["ngroups"] = len(r)
        except Exception as ex:  # noqa: BLE001
            o["raised"] = f"{type(ex).__name__}: {ex}"[:300]
        res.append(o)
    return res


def run_forms(payload):
    """items: {text}; projected result for the C01 monitor"""
    from eyecite.models import ReferenceCitation
    res = []
    for it in payload["items"]:
        text = it["text"]
        o = {"raised": "", "obs": [], "nrefs": 0, "ties": False}
        try:
            cs = extract(text, it.get("tok", "aho"), remove_ambiguous=it.get("ra", False))
            for c in cs:
                if isinstance(c, ReferenceCitation):
                    o["nrefs"] += 1
                    continue
                p = proj(c)
                m = p["meta"]
                o["obs"].append({"cls": p["cls"], "s": p["s"], "e": p["e"], "fs": p["fs"], "fe": p["fe"], "groups": p["groups"],
                                 "pin_cite": m.get("pin_cite", ""), "myear": m.get("year", ""), "year": p["year"],
                                 "court": m.get("court", ""), "defendant": m.get("defendant", ""),
                                 "plaintiff_cp": _cp(m.get("plaintiff", "")), "antecedent": m.get("antecedent_guess", ""),
                                 "paren": m.get("parenthetical", ""),
                                 "editions": sorted({e.short_name for e in getattr(c, "all_editions", ())})})
            if it.get("want_ties"):
                # does a second pattern with a different group structure match the same characters?
                toks = list(tokenizer("ref").extract_tokens(text))
                by = {}
                for t in toks:
                    by.setdefault((t.start, t.end), set()).add(tuple(sorted(t.groups)))
                o["ties"] = any(len(v) > 1 for v in by.values())
        except Exception as ex:  # noqa: BLE001
            o["raised"] = f"{type(ex).__name__}: {ex}"[:300]
        res.append(o)
    return res


def courts_and_strings(payload):
    """courts-db (read directly) and, per reporter string, the template class of its editions"""
    import re as _re
    from courts_db import courts
    from reporters_db import JOURNALS, LAWS, REPORTERS
    cs = {}
    for c in courts:
        s = c["citation_string"]
        if s and ")" not in s and "(" not in s and not _re.search(r"\d{4}", s):
            cs.setdefault(_re.sub(r"[^\w]", "", s).lower(), {"string": s, "ids": []})["ids"].append(str(c["id"]))
    # a court string is usable when no OTHER court's normalised string equals it (exact match preferred by the lookup)
    # which (string, edition) pairs admit the minimal form "12 <string> 345" is decided with
    # reporters-db's OWN regex templates and variables (not through eyecite's extractors)
    from string import Template
    from reporters_db import RAW_REGEX_VARIABLES
    from reporters_db.utils import process_variables, recursive_substitute
    variables = process_variables(RAW_REGEX_VARIABLES)

    def admits_minimal(templates, string):
        for t in templates:
            rx = Template(recursive_substitute(t, variables)).safe_substitute(edition=_re.escape(string))
            try:
                if _re.fullmatch(rx, f"12 {string} 345"):
                    return True
            except _re.error:
                continue
        return False
    reporters = []
    for key, cluster in REPORTERS.items():
        for src in cluster:
            for ename, ed in src["editions"].items():
                plain = not ed.get("regexes")
                tpls = ed.get("regexes") or ["$full_cite"]
                for string in [ename] + [v for v, target in src["variations"].items() if target == ename]:
                    reporters.append({"string": string, "edition": ename, "plain": plain, "cite_type": src["cite_type"],
                                      "minimal": admits_minimal(tpls, string)})
    laws = [{"key": k, "examples": list(s.get("examples") or []), "variations": list(s.get("variations") or [])}
            for k, cl in LAWS.items() for s in cl]
    journals = []
    for k, cl in JOURNALS.items():
        for src in cl:
            tpls = src.get("regexes") or ["$full_cite"]
            for string in [k] + list(src.get("variations") or []):
                journals.append({"string": string, "key": k, "minimal": admits_minimal(tpls, string)})
    return {"courts": list(cs.values()), "reporters": reporters, "laws": laws, "journals": journals}


def run_steps(payload):
    """Step-level records for Trace_ExtractSteps.tla (needs the guarded hook: EYECITE_VERIF=1)."""
    try:
        from eyecite import _verif
    except ImportError:          # a tree without the hook commits: the layer is skipped, and says so
        return [{"hooks": False, "cites": [], "raised": ""} for _ in payload["items"]]
    from eyecite import get_citations
    from eyecite.helpers import process_parenthetical
    from eyecite.models import (CitationToken, FullCaseCitation, FullJournalCitation, FullLawCitation, IdCitation,
                                ParagraphToken, ReferenceCitation, ShortCaseCitation, StopWordToken, SupraCitation, Token)
    from eyecite.tokenizers import default_tokenizer
    res = []
    if not _verif.ENABLED:
        return [{"hooks": False, "cites": [], "raised": ""} for _ in payload["items"]]
    for it in payload["items"]:
        text = it["text"]
        o = {"hooks": True, "cites": [], "raised": "", "text": text}
        try:
            words, _ = default_tokenizer.tokenize(text)
            absw = []
            for w in words:
                if isinstance(w, ParagraphToken):
                    k = "para"
                elif isinstance(w, StopWordToken):
                    k = "stopv" if w.groups.get("stop_word") == "v" else "stop"
                elif isinstance(w, CitationToken):
                    k = "cite"
                elif isinstance(w, Token):
                    k = "oth"
                else:
                    k = "w"
                absw.append({"k": k, "n": len(str(w)), "semi": k not in ("stop", "stopv") and str(w).endswith(";")})
            del _verif.EVENTS[:]
            cs = get_citations(text)
            events = list(_verif.EVENTS)
            del _verif.EVENTS[:]
            for c in cs:
                if isinstance(c, ReferenceCitation):
                    continue
                form = ("full" if isinstance(c, FullCaseCitation) else "short" if isinstance(c, ShortCaseCitation)
                        else "supra" if isinstance(c, SupraCitation) else "id" if isinstance(c, IdCitation)
                        else "law" if isinstance(c, FullLawCitation) else "journal" if isinstance(c, FullJournalCitation) else None)
                if form is None:
                    continue
                i = c.index
                fev = next((e for e in events if e["forward"] and e["start_index"] == i + 1), None)
                bevs = [e for e in events if not e["forward"] and e["start_index"] == i - 1]
                # a full case citation's backward event is add_pre_citation's; short / supra have the antecedent one
                bev = bevs[-1] if bevs else None
                fwd = {"present": fev is not None, "matched": False, "mend": 0, "pin": 0, "pins": 0, "raw": -1, "proc": -1,
                       "wlen": 0, "pre": 0, "strings": True}
                if fev:
                    fwd.update(wlen=len(fev["text"]), pre=fev["prefix_len"], strings=fev["strings_only"], matched=fev["span"] is not None)
                    if fev["span"] is not None:
                        fwd["mend"] = fev["span"][1]
                        g = fev["groups"]
                        if g.get("pin_cite", [-1, -1])[0] >= 0:
                            ptxt = fev["text"][g["pin_cite"][0]:g["pin_cite"][1]]
                            fwd["pin"] = len(ptxt)
                            fwd["pins"] = len(ptxt.rstrip(", "))
                        if g.get("parenthetical", [-1, -1])[0] >= 0:
                            raw = fev["text"][g["parenthetical"][0]:g["parenthetical"][1]]
                            proc = process_parenthetical(raw)
                            fwd["raw"] = len(raw)
                            fwd["proc"] = len(proc) if isinstance(proc, str) else -1
                back = {"present": bev is not None, "matched": False, "mlen": 0, "pin": False, "wlen": 0}
                if bev:
                    back.update(wlen=len(bev["text"]), matched=bev["span"] is not None)
                    if bev["span"] is not None:
                        back["mlen"] = bev["span"][1] - bev["span"][0]
                        g = bev["groups"]
                        back["pin"] = g.get("pin_cite", [-1, -1])[0] >= 0 and g["pin_cite"][1] > g["pin_cite"][0]
                # stripped characters of the joined plaintiff text (words[index-2:index] of the stop word)
                lead = trail = 0
                if form == "full":
                    for j in range(i - 1, max(i - 28, -1), -1):
                        w = words[j]
                        if isinstance(w, StopWordToken):
                            if w.groups.get("stop_word") == "v" and j > 0:
                                joined = "".join(str(x) for x in words[max(j - 2, 0):j])
                                lead = len(joined) - len(joined.lstrip("( "))
                                trail = len(joined.lstrip("( ")) - len(joined.strip("( "))
                            break
                        if str(w) != "," and str(w).endswith(";"):
                            break
                s, e = c.span()
                fs, fe = c.full_span()
                ps, pe = c.span_with_pincite()
                o["cites"].append({"form": form, "idx": i + 1, "ts": c.token.start, "te": c.token.end, "words": absw,
                                   "obs": {"s": s, "e": e, "fs": fs, "fe": fe, "ps": ps, "pe": pe},
                                   "fwd": fwd, "back": back, "lead": lead, "trail": trail})
        except Exception as ex:  # noqa: BLE001
            o["raised"] = f"{type(ex).__name__}: {ex}"[:300]
        res.append(o)
    return res


GROUPS = ("pin_cite", "extra", "parenthetical", "year", "court", "publisher", "day", "month", "antecedent", "volume")


def _opt(s):
    return [-1] if s is None else [ord(ch) for ch in s]


def run_meta(payload):
    """Document-level records for Trace_Meta.tla (needs the guarded hook: EYECITE_VERIF=1): the text, the token
    list, and per citation built from a token (extraction order) the matcher events and the returned metadata."""
    try:
        from eyecite import _verif
    except ImportError:
        return [{"hooks": False} for _ in payload["items"]]
    if not _verif.ENABLED:
        return [{"hooks": False} for _ in payload["items"]]
    from eyecite import get_citations
    from eyecite.models import (CitationToken, FullCaseCitation, FullJournalCitation, FullLawCitation, IdCitation,
                                ParagraphToken, ReferenceCitation, ShortCaseCitation, StopWordToken, SupraCitation, Token,
                                UnknownCitation)
    from eyecite.tokenizers import default_tokenizer
    res = []
    for it in payload["items"]:
        text = it["text"]
        o = {"hooks": True, "text": [ord(ch) for ch in text], "words": [], "cites": [], "raised": "", "skipped": ""}
        if any(ch.isdigit() and not ch.isascii() for ch in text):
            o["skipped"] = "non-ASCII digit (outside the model's digit class)"
            res.append(o)
            continue
        try:
            words, _ = default_tokenizer.tokenize(text)
            for w in words:
                if isinstance(w, ParagraphToken):
                    k = "para"
                elif isinstance(w, StopWordToken):
                    k = "stopv" if w.groups.get("stop_word") == "v" else "stop"
                elif isinstance(w, CitationToken):
                    k = "cite"
                elif isinstance(w, Token):
                    k = "oth"
                else:
                    k = "w"
                o["words"].append({"k": k, "n": len(str(w)), "semi": k not in ("stop", "stopv") and str(w).endswith(";")})
            del _verif.EVENTS[:]
            cs = get_citations(text)
            events = list(_verif.EVENTS)
            del _verif.EVENTS[:]
            for c in cs:
                if isinstance(c, ReferenceCitation):
                    continue
                form = ("full" if isinstance(c, FullCaseCitation) else "short" if isinstance(c, ShortCaseCitation)
                        else "supra" if isinstance(c, SupraCitation) else "id" if isinstance(c, IdCitation)
                        else "law" if isinstance(c, FullLawCitation) else "journal" if isinstance(c, FullJournalCitation)
                        else "unknown" if isinstance(c, UnknownCitation) else "other")
                i = c.index
                ts, te = c.token.start, c.token.end
                fev = next((e for e in events if e["forward"] and e["start_index"] == i + 1), None)
                bevs = [e for e in events if not e["forward"] and e["start_index"] == i - 1]
                bev = bevs[-1] if bevs else None
                nog = {g: [-1, -1] for g in GROUPS}
                fwd = {"present": fev is not None, "matched": False, "pre": 0, "wlen": 0, "g": dict(nog)}
                back = {"present": bev is not None, "matched": False, "mlen": 0, "wlen": 0, "g": dict(nog)}
                winok = True
                if fev:
                    fwd.update(pre=fev["prefix_len"], wlen=len(fev["text"]), matched=fev["span"] is not None)
                    ws = te - fev["prefix_len"]
                    winok = winok and text[ws:ws + len(fev["text"])] == fev["text"]
                    for g, sp in fev["groups"].items():
                        if g in fwd["g"]:
                            fwd["g"][g] = sp
                if bev:
                    back.update(wlen=len(bev["text"]), matched=bev["span"] is not None)
                    winok = winok and text[ts - len(bev["text"]):ts] == bev["text"]
                    if bev["span"] is not None:
                        back["mlen"] = bev["span"][1] - bev["span"][0]
                    for g, sp in bev["groups"].items():
                        if g in back["g"]:
                            back["g"][g] = sp
                md = c.metadata
                g = lambda n: _opt(getattr(md, n, None))  # noqa: E731
                yn = getattr(c, "year", None)
                obs = {"pin": g("pin_cite"), "extra": g("extra"), "paren": g("parenthetical"), "year": g("year"),
                       "ynum": -99 if yn is None else yn, "plaintiff": g("plaintiff"), "defendant": g("defendant"),
                       "ante": g("antecedent_guess"), "publisher": g("publisher"), "day": g("day"), "month": g("month"),
                       "volume": g("volume"), "fsattr": -99 if c.full_span_start is None or form != "full" else c.full_span_start}
                # the model's whitespace class for the defendant-year pattern is blank / tab and no line breaks:
                # outside it the citation still drives the fold (prev) but its values are not compared
                region = text[max(0, ts - 400):ts]
                judge = form in ("full", "short", "supra", "id", "law", "journal") and not (
                    form == "full" and any(ch.isspace() and ch not in " \t" for ch in region))
                o["cites"].append({"form": form, "idx": i + 1, "ts": ts, "te": te, "fwd": fwd, "back": back, "obs": obs,
                                   "winok": winok, "judge": judge})
        except Exception as ex:  # noqa: BLE001
            o["raised"] = f"{type(ex).__name__}: {ex}"[:300]
            o["cites"] = []
        res.append(o)
    return res


def run_meta_funcs(payload):
    """Replay of MC_Meta behaviours: the real process_parenthetical / clean_pin_cite / get_year on the model's inputs."""
    from eyecite import helpers
    out = []
    for it in payload["items"]:
        s = "".join(map(chr, it["txt"]))
        if it["mode"] == "paren":
            out.append({"out": _opt(helpers.process_parenthetical(s))})
        elif it["mode"] == "strip":
            out.append({"out": _opt(helpers.clean_pin_cite(s))})
        else:
            y = helpers.get_year(s)
            out.append({"out": -99 if y is None else y})
    return out


def highest_year(payload):
    from eyecite import helpers
    return helpers._highest_valid_year
