"""Driver for C14: the Hyperscan tokenizer against the reference tokenizer, and its cache life cycle."""
import json
import os
import random
import shutil
import tempfile

PROBE = "See Foo v. Bar, 1 U.S. 1, 5 (1999); id. at 7; “2 F.3d 2”; Bar, supra, at 3; 42 U.S.C. § 1983."


def cand_repr(t):
    eds = ""
    if hasattr(t, "exact_editions"):
        eds = "|E" + ",".join(sorted(f"{e.reporter.short_name}/{e.short_name}" for e in t.exact_editions)) + \
              "|V" + ",".join(sorted(f"{e.reporter.short_name}/{e.short_name}" for e in t.variation_editions)) + f"|s{int(t.short)}"
    return f"{type(t).__name__}|{t.start}|{t.end}|{json.dumps(t.groups, sort_keys=True)}{eds}"


_HS = {}


def hs_tokenizer():
    if "hs" not in _HS:
        from eyecite.tokenizers import HyperscanTokenizer
        _HS["hs"] = HyperscanTokenizer(cache_dir=os.environ.get("VERIF_HS_CACHE") or tempfile.mkdtemp(prefix="hs"))
    return _HS["hs"]


def genuine(text, tok, extractors):
    """is there an extractor whose pattern matches in the FULL text (real boundaries) with exactly
    this token's group-1 span, type and groups?"""
    want = cand_repr(tok)
    for e in extractors:
        for pos in {max(tok.start - 1, 0), tok.start}:
            m = e.compiled_regex.match(text, pos)
            if m and m.span(1) == (tok.start, tok.end) and cand_repr(e.get_token(m)) == want:
                return True
    return False


_CUSTOM = {}


def custom_pair(which):
    """a reference tokenizer and a Hyperscan tokenizer over the same CUSTOM extractor list (the documented
    `extractors=` configuration).  0: a sample of the default extractors in reversed order; 1: synthetic extractors
    whose patterns contain multi-byte characters the default list does not use (optional ones, classes, literals),
    case-insensitive and case-sensitive, next to the special default extractors.  Only what the pattern conversion of the
    tokenizer covers: multi-byte characters as literals, in alternations and as OPTIONAL characters ("x?") -- a character
    class that contains a multi-byte character is a byte class for Hyperscan and outside the property."""
    if which not in _CUSTOM:
        import re
        from eyecite.models import CitationToken, TokenExtractor
        from eyecite.tokenizers import EXTRACTORS, HyperscanTokenizer, Tokenizer
        if which == 0:
            L = list(reversed(small_extractors()))
        else:
            def ext(rx, flags=0):
                return TokenExtractor(rx, CitationToken.from_match, {"exact_editions": [], "variation_editions": [], "short": False},
                                      flags=flags, strings=[])
            L = [ext(r"(B\.O\.E\. n\.?º? ?(?P<page>\d+))"), ext(r"((?P<volume>\d+) Nº ?(?P<page>\d+))"),
                 ext(r"(№ ?(?P<page>\d+)°?)"), ext(r"((?P<volume>\d+) d(?:é|e)cret ?(?P<page>\d+))", re.I),
                 ext(r"(Rép\.? (?P<page>\d{1,4})ᵉ?)")] + EXTRACTORS[-5:]
        _CUSTOM[which] = (L, Tokenizer(extractors=L), HyperscanTokenizer(extractors=L))
    return _CUSTOM[which]


def run_cands(payload):
    from eyecite import get_citations
    from eyecite.tokenizers import Tokenizer
    import drv_purity
    res = []
    # (the harness puts the custom-list items first in every chunk: a tokenizer over another extractor list has then
    # been built and used in the process before the default Hyperscan tokenizer is)
    ref = Tokenizer()
    hs = None
    for it in payload["items"]:
        text = it["text"]
        o = {"text": text, "raised": "", "ref": [], "hs": [], "extra_genuine": [], "ties": False, "cit_equal": True}
        if it.get("custom") is not None:
            try:
                L, cref, chs = custom_pair(it["custom"])
                rt = list(cref.extract_tokens(text))
                ht = list(chs.extract_tokens(text))
                o["ref"] = sorted(cand_repr(t) for t in rt)
                o["hs"] = sorted(cand_repr(t) for t in ht)
                refset = set(o["ref"])
                o["extra_genuine"] = [genuine(text, t, L) for t in ht if cand_repr(t) not in refset]
            except Exception as ex:  # noqa: BLE001
                o["raised"] = f"{type(ex).__name__}: {ex}"[:300]
            res.append(o)
            continue
        if hs is None:
            hs = hs_tokenizer()
        try:
            rt = list(ref.extract_tokens(text))
            ht = list(hs.extract_tokens(text))
            o["ref"] = sorted(cand_repr(t) for t in rt)
            o["hs"] = sorted(cand_repr(t) for t in ht)
            refset = set(o["ref"])
            extra = [t for t in ht if cand_repr(t) not in refset]
            o["extra_genuine"] = [genuine(text, t, hs.extractors) for t in extra]
            spans = {}
            for r in set(o["hs"]) | refset:
                k = tuple(r.split("|")[1:3])
                spans[k] = spans.get(k, 0) + 1
            o["ties"] = any(v > 1 for v in spans.values())
            if set(o["hs"]) == refset and not o["ties"]:
                a = drv_purity.ser(get_citations(text, tokenizer=ref))
                b = drv_purity.ser(get_citations(text, tokenizer=hs))
                o["cit_equal"] = a == b
            else:
                get_citations(text, tokenizer=hs)
            # the SAME tokenizer instance on the same text again (after its tokens were used by get_citations): if the
            # candidates differ now, the second call is the one that is judged
            ht2 = list(hs.extract_tokens(text))
            hs2 = sorted(cand_repr(t) for t in ht2)
            if hs2 != o["hs"]:
                o["hs"] = hs2
                o["extra_genuine"] = [genuine(text, t, hs.extractors) for t in ht2 if cand_repr(t) not in refset]
                o["second_call"] = True
        except Exception as ex:  # noqa: BLE001
            o["raised"] = f"{type(ex).__name__}: {ex}"[:300]
        res.append(o)
    return res


def small_extractors():
    from eyecite.tokenizers import EXTRACTORS
    return [e for i, e in enumerate(EXTRACTORS) if i % 300 == 0 or "U.S." in e.strings or "F.3d" in e.strings][:40] + EXTRACTORS[-5:]


def corrupt(path, kind, rnd):
    data = bytearray(open(path, "rb").read())
    n = len(data)
    if n < 128 and kind not in ("empty", "appended", "garbage"):
        # the file is not a database any more (an earlier construction failed to rewrite it):
        # the fault degenerates to further damage of what is there
        data = bytearray((b ^ 0xFF) for b in data) or bytearray(b"\x00")
    elif kind == "empty":
        data = bytearray()
    elif kind == "prefix":
        data = data[: rnd.choice([1, 3, 7, 16, 40, n // 2, n - 1])]
    elif kind == "badmagic":
        data[rnd.randrange(0, 4)] ^= 1 << rnd.randrange(8)
    elif kind == "badversion":
        data[rnd.randrange(4, 8)] ^= 1 << rnd.randrange(8)
    elif kind == "badplatform":
        data[rnd.randrange(12, 20)] ^= 1 << rnd.randrange(8)
    elif kind == "badbody":
        data[rnd.randrange(64, n)] ^= 0xFF
    elif kind == "garbage":
        data = bytearray(rnd.randrange(256) for _ in range(max(16, min(n, 4096))))
    elif kind == "appended":
        data += bytes(rnd.randrange(256) for _ in range(16))
    open(path, "wb").write(bytes(data))


def load_outcome(path):
    import hyperscan
    try:
        hyperscan.loadb(open(path, "rb").read(), mode=hyperscan.HS_MODE_BLOCK)
        return "ok"
    except hyperscan.error as ex:
        return type(ex).__name__
    except Exception as ex:  # noqa: BLE001
        return "other:" + type(ex).__name__


def run_cache(payload):
    """items: behaviours of HsCache.tla: sequences of "construct" / "crash" / fault kinds"""
    from eyecite.tokenizers import HyperscanTokenizer, Tokenizer
    L = small_extractors()
    base = [cand_repr(t) if not isinstance(t, str) else "w:" + t for t in Tokenizer(extractors=L).tokenize(PROBE)[0]]
    nocache = [cand_repr(t) if not isinstance(t, str) else "w:" + t for t in HyperscanTokenizer(extractors=L).tokenize(PROBE)[0]]
    import copy
    import re as _re
    # the same patterns with other flags (case-insensitive extractors made case-sensitive)
    L2 = []
    for e in L:
        e2 = copy.copy(e)
        e2.__dict__.pop("_compiled_regex", None)
        if e.flags & _re.I:
            e2.flags = 0
        L2.append(e2)
    res = []
    for bi, beh in enumerate(payload["items"]):
        rnd = random.Random(payload["common"]["seed"] * 100003 + bi)
        d = tempfile.mkdtemp(prefix="hscache")
        events = []
        foreign_files = set()
        try:
            for ev in beh:
                files = [os.path.join(d, f) for f in sorted(os.listdir(d)) if f not in foreign_files]
                if ev in ("foreign", "foreignorder"):
                    before = set(os.listdir(d))
                    e = {"ev": ev, "raised": "", "same": True, "load": ""}
                    try:
                        # other flags, or the same patterns and flags in another order (reversed / rotated)
                        other = L2 if ev == "foreign" else (list(reversed(L)) if bi % 2 == 0 else L[1:] + L[:1])
                        HyperscanTokenizer(cache_dir=d, extractors=other).tokenize(PROBE)
                    except Exception as ex:  # noqa: BLE001
                        e["raised"] = "foreign tokenizer: " + type(ex).__name__
                    # a file it created under a NEW name is its own; a name we already use is shared
                    foreign_files |= set(os.listdir(d)) - before
                    events.append(e)
                    continue
                if ev == "construct":
                    e = {"ev": ev, "raised": "", "same": True, "load": ""}
                    try:
                        tk = HyperscanTokenizer(cache_dir=d, extractors=L)
                        toks = [cand_repr(t) if not isinstance(t, str) else "w:" + t for t in tk.tokenize(PROBE)[0]]
                        e["same"] = toks == nocache
                    except Exception as ex:  # noqa: BLE001
                        e["raised"] = f"{type(ex).__name__}: {ex}"[:200]
                    events.append(e)
                else:
                    kind = "prefix" if ev == "crash" else ev
                    if files:
                        corrupt(files[0], kind, rnd)
                        events.append({"ev": ev, "raised": "", "same": True, "load": load_outcome(files[0])})
                    else:
                        events.append({"ev": ev, "raised": "", "same": True, "load": "nofile"})
        finally:
            shutil.rmtree(d, ignore_errors=True)
        res.append({"kind": "cache", "events": events, "nocache_equals_reference": nocache == base})
    return res
