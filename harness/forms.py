"""Concretisation of Forms.tla shapes (stdlib only; no eyecite): lexeme classes -> strings, slot
indices -> character offsets, and the expected citation(s) in concrete terms.

A concretisation `conc` supplies: R (reporter string as written), vol, page, pl, df (party
words), court (string) and its allowed ids, year, par (parallel reporter).
"""

LONG = ("The parties briefed the question at length and the trial court took the matter under advisement for several "
        "months before it ruled that the statute applied to the transaction and that the claim was timely because the "
        "limitation period had been tolled while the earlier action was pending before another tribunal which later "
        "declined to hear it on the merits as was explained in ")
LEAD = {"none": "", "prose": "We note that ", "see": "See ", "in": "In ", "long": LONG}
PAREN = {"none": "", "simple": " (holding that x)", "nested": " (quoting y (z))", "double": " (holding x) (second)"}
PAREN_TEXT = {"simple": "holding that x", "nested": "quoting y (z)", "double": "holding x"}
TERM = {"dot": ".", "semi": ";", "comma": ",", "end": "", "space": " "}
TRAIL = {"none": "", "sentence": " Next sentence follows.", "parens": " Other (text) here."}


def render(shape, conc):
    """returns text, slot offsets {slot: [start, end]}, expected values (concrete)"""
    f = shape["form"]
    R, vol, page = conc["R"], conc["vol"], conc["page"]
    pl, df, year = conc["pl"], conc["df"], conc["year"]
    pin_page = str(int(page) + 2) if page.isdigit() else "347"
    parts = {}
    parts["lead"] = LEAD[shape["lead"]]
    p = shape["parties"]
    written_pl = written_df = ante = None
    if p == "pv":
        parts["parties"] = f"{pl} v. {df}"
        written_pl, written_df = pl, df
    elif p == "pvmulti":
        parts["parties"] = f"Alpha {pl} Co. v. {df} Delta"
        written_pl, written_df = f"Alpha {pl} Co.", f"{df} Delta"
    elif p == "inre":
        parts["parties"] = f"In re {df}"
        written_df = df
    elif p == "ante":
        parts["parties"] = f"{df}"
        ante = df
    elif p == "antepin":
        parts["parties"] = f"{df} at {pin_page}"
        ante = df
    else:
        parts["parties"] = ""
    sep = ""
    if p != "none":
        sep = " " if shape["preyear"] else ", "
    parts["parties"] += sep
    parts["preyear"] = f"({year}) " if shape["preyear"] else ""
    pin_text = None
    if f == "full":
        parts["core"] = conc.get("core") or f"{vol} {R} {page}"
        parts["pin"] = {"none": "", "p": f", {pin_page}", "range": f", {pin_page}-{int(pin_page) % 100 + 1}", "at": f", at {pin_page}",
                        "two": f", {pin_page}, {int(pin_page) + 3}", "label": f", {pin_page}, n. 5"}[shape["pin"]]
        if shape["pin"] != "none":
            pin_text = parts["pin"][2:]
        if p == "antepin":
            pin_text = f"at {pin_page}"
    elif f == "short":
        comma = "," if conc.get("shortcomma") else ""
        parts["core"] = f"{vol} {R}{comma} at {pin_page}"
        parts["pin"] = "" if shape["pin"] == "p" else f"-{int(pin_page) % 100 + 1}"
        pin_text = pin_page + parts["pin"]
    elif f == "supra":
        parts["core"] = "supra"
        parts["pin"] = {"none": "", "at": f", at {pin_page}", "p": f", {pin_page}"}[shape["pin"]]
        if shape["pin"] != "none":
            pin_text = parts["pin"][2:]
    elif f == "id":
        idform = conc.get("idform", "Id.")
        parts["core"] = idform
        parts["pin"] = {"none": "", "at": f" at {pin_page}", "range": f" at {pin_page}-{int(pin_page) % 100 + 1}"}[shape["pin"]]
        if shape["pin"] != "none":
            pin_text = parts["pin"].strip()
    else:
        parts["core"] = conc.get("core") or f"{vol} {R} {page}"
        parts["pin"] = {"none": "", "p": f", {pin_page}", "range": f", {pin_page}-{int(pin_page) % 100 + 1}"}[shape["pin"]]
        if shape["pin"] != "none":
            pin_text = parts["pin"][2:]
    parts["parallel"] = f", {conc['parvol']} {conc['par']} {conc['parpage']}" if shape["parallel"] else ""
    parts["yp"] = {"none": "", "year": f" ({year})", "court": f" ({conc['court']} {year})", "bracket": f" [{year}]"}[shape["yp"]]
    if f == "law" and shape["yp"] == "year" and conc.get("publisher"):
        parts["yp"] = f" ({conc['publisher']} {year})"
    parts["paren"] = PAREN[shape["paren"]]
    parts["term"] = TERM[shape["term"]]
    trail = f" The court in {df} at 12 agreed." if shape["trail"] == "nameref" else TRAIL[shape["trail"]]
    parts["trail"] = trail.lstrip() if shape["term"] == "space" else trail
    order = ["lead", "parties", "preyear", "core", "pin", "parallel", "yp", "paren", "term", "trail"]
    text, off = "", {}
    for s in order:
        off[s] = [len(text), len(text) + len(parts[s])]
        text += parts[s]
    e = shape_expected = None
    return text, off, parts, {"written_pl": written_pl, "written_df": written_df, "ante": ante, "pin_text": pin_text,
                               "paren_text": PAREN_TEXT.get(shape["paren"]), "pin_page": pin_page}


def expected(shape, exp, conc):
    """concrete expectation records (one per written citation) from Forms.tla's slot-level ground truth"""
    text, off, parts, w = render(shape, conc)
    kind = {"full": "FullCaseCitation", "short": "ShortCaseCitation", "supra": "SupraCitation", "id": "IdCitation",
            "law": "FullLawCitation", "journal": "FullJournalCitation"}[shape["form"]]
    s = off[exp["spanFrom"]][0]
    e = off[exp["spanTo"]][1]
    ex = {"kind": kind, "s": s, "e": e, "e_upper": bool(conc.get("e_upper")), "pin_any": bool(conc.get("e_upper")),
          "pin": w["pin_text"] if exp["pin"] != "-" else "",
          "year": str(conc["year"]) if exp["year"] != "-" else "",
          "court": conc["court_ids"] if exp["court"] != "-" else [],
          "has_court": exp["court"] != "-",
          "defendant": w["written_df"] if exp["defendant"] != "-" else "",
          "plaintiff": w["written_pl"] if exp["plaintiff"] != "-" else "",
          "antecedent": w["ante"] if exp["antecedent"] != "-" else "",
          "paren": w["paren_text"] if exp["paren"] != "-" else "",
          "groups": conc.get("groups", {}), "fs": -1, "fs_kind": "none", "pl_end": -1, "fe": -1, "fe_upper": exp["fullToIsUpperBound"],
          "editions": conc.get("editions", []), "check_editions": conc.get("check_editions", False)}
    if exp["fullFrom"] != "-":
        if exp["plaintiff"] != "-":
            ex["fs_kind"] = "plaintiff"
            ex["pl_end"] = off["parties"][0] + len(w["written_pl"])
        else:
            ex["fs_kind"] = "antecedent"
            ex["fs"] = off["parties"][0]
    if exp["fullTo"] != "-":
        fe = off[exp["fullTo"]][1]
        if exp["fullTo"] == "paren" and shape["paren"] == "double":
            fe = off["paren"][0] + len(" (holding x)")
        ex["fe"] = fe
    out = [ex]
    if shape["parallel"]:
        ps = off["parallel"][0] + 2
        px = dict(ex, s=ps, e=off["parallel"][1], pin="", groups={"volume": conc["parvol"], "reporter": conc["par"], "page": conc["parpage"]},
                  editions=[], check_editions=False)
        out.append(px)
    return text, out
