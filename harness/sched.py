"""Deterministic two-thread scheduler for C15 (runs in a fresh interpreter; eyecite from /repo).

Both threads call get_citations; a trace function parks a thread at every *call event of an eyecite
frame* (function-call granularity, no repository change needed).  A schedule is "thread 0 runs k
yield points, then thread 1 runs to completion, then thread 0 finishes" (one pre-emption) -- the
refinement, to function-call granularity, of the single-pre-emption interleavings of Purity.tla.
One fresh process explores one k, so that the calls are the FIRST calls of the process (lazy
initialisation races) when `fresh` is set; otherwise all k are explored in one process.
"""
import sys
import threading


class Sched:
    def __init__(self, k):
        self.cv = threading.Condition()
        self.turn = 0
        self.k = k
        self.steps = [0, 0]
        self.done = [False, False]
        self.switched = False
        self.names = []          # code names at thread 0's yield points (probe runs)

    def tracer(self, me):
        def trace(frame, event, arg):
            if event == "call" and frame.f_globals.get("__name__", "").startswith("eyecite"):
                if me == 0 and self.k >= 10 ** 9:
                    self.names.append(frame.f_code.co_name)
                self.yield_point(me)
            return None
        return trace

    def yield_point(self, me):
        with self.cv:
            self.steps[me] += 1
            if me == 0 and not self.switched and self.steps[0] > self.k and not self.done[1]:
                self.switched = True
                self.turn = 1
                self.cv.notify_all()
            while self.turn != me and not self.done[1 - me]:
                self.cv.wait(timeout=5)

    def finish(self, me):
        with self.cv:
            self.done[me] = True
            self.turn = 1 - me
            self.cv.notify_all()


def run_pair(texts, opts, k):
    import drv_purity
    import eyecite  # noqa: F401  (imported before the threads start: the import lock is not a yield point)
    from eyecite import get_citations  # noqa: F401
    s = Sched(k)
    out = [None, None]

    def body(me):
        sys.settrace(s.tracer(me))
        try:
            with s.cv:
                while s.turn != me and not s.done[1 - me]:
                    s.cv.wait(timeout=5)
            out[me] = drv_purity.call(texts[me], opts[me])[1]
        finally:
            sys.settrace(None)
            s.finish(me)
    ths = [threading.Thread(target=body, args=(i,)) for i in (0, 1)]
    for t in ths:
        t.start()
    for t in ths:
        t.join(timeout=60)
    return out, s.steps, s.names


def run(payload):
    """payload: {pairs: [[textA, textB]...], ks: [...], opt}: returns digests per (pair, k)"""
    import drv_purity
    res = []
    for ta, tb in payload["pairs"]:
        for k in payload["ks"]:
            out, steps, names = run_pair([ta, tb], [payload.get("opt", 0)] * 2, k)
            res.append({"names": names if payload.get("want_names") else [], "k": k, "a": ta, "b": tb, "da": drv_purity.dig(out[0]) if out[0] is not None else "NONE",
                        "db": drv_purity.dig(out[1]) if out[1] is not None else "NONE", "steps": steps})
    return res
