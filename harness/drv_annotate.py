"""Driver: run the real annotate_citations / SpanUpdater (eyecite from /repo).

Concretisation (DESIGN 3.10): token t(n) -> n digits (cycling, so plain characters never
occur in inserted material and the minimal diff plain -> source is unique), w(n) -> "\n\t"[:n],
d(n) -> n letters in the plain text only (a deletion of the diff), oX/cX -> "<X>" / "</X>"; annotation k -> before '<a id="k">', after '</a>' (balanced element,
occurs nowhere in the texts; ties of equal spans sort by k, as sorted() does).
Projection: the output split at the before/after strings into items B(k) / A / s(text);
lxml's verdict on "<div>"+output+"</div>" and its text content (the judge C11 names).
"""
import re

TAG = {"oi": "<i>", "ci": "</i>", "ob": "<b>", "cb": "</b>", "op": "<p>", "cp": "</p>", "sc": "<br/>", "od": "<div>", "cd": "</div>"}
SPLIT = re.compile(r'(<a id="\d+">|</a>)')


def _cp(s):
    return [ord(c) for c in s]


def render(src, same=False):
    """same=True: every plain character is the same digit (equal span texts in different neighbourhoods); the inserted
    material is still foreign to the plain text, so the minimal diff stays unique"""
    out, plain, d = [], [], 0
    for t in src:
        if t["c"] == "t":
            s = "7" * t["n"] if same else "".join(str((d + i) % 10) for i in range(t["n"]))
            d += t["n"]
            out.append(s)
            plain.append(s)
        elif t["c"] == "d":                     # plain text the source lacks (letters: they occur nowhere in the target)
            plain.append("xyz"[d % 3] * t["n"])
            d += t["n"]
        elif t["c"] == "w":
            out.append("\n\t"[: t["n"]])
        else:
            out.append(TAG[t["c"]])
    return "".join(out), "".join(plain)


def lxml_judge(s):
    from lxml import etree
    try:
        root = etree.fromstring(f"<div>{s}</div>")
        return True, "".join(root.itertext())
    except etree.XMLSyntaxError:
        return False, ""


def items_of(output):
    items = []
    for piece in SPLIT.split(output):
        if not piece:
            continue
        m = re.fullmatch(r'<a id="(\d+)">', piece)
        if m:
            items.append({"k": "B", "id": int(m.group(1)) + 1, "t": []})
        elif piece == "</a>":
            items.append({"k": "A", "id": 0, "t": []})
        else:
            items.append({"k": "s", "id": 0, "t": _cp(piece)})
    return items


def _concat(before, text, after):
    """a caller-supplied annotator that does what the default does (the documented `annotator=` configuration)"""
    return before + text + after


_NCALL = [0]


def annotate_one(plain, target, has_src, mode, anns, use_dmp):
    from eyecite import annotate_citations
    _NCALL[0] += 1
    extra = {"annotator": _concat} if _NCALL[0] % 3 == 0 else {}     # every third call goes through the callback path
    annotations = [((a[0], a[1]), f'<a id="{k}">', "</a>") for k, a in enumerate(anns)]
    annotations.reverse()                       # the call must sort them itself
    o = {"target": _cp(target), "plain": _cp(plain), "hasSrc": has_src, "mode": mode,
         "anns": [list(a) for a in anns], "dmp": use_dmp, "raised": "", "items": [], "wf": True, "tc": [],
         "src_wf": True, "src_tc": [], "minimal": True, "oversize": False}
    try:
        out = annotate_citations(plain, annotations, source_text=target if has_src else None,
                                 unbalanced_tags=mode, use_dmp=use_dmp, **extra)
        if not isinstance(out, str):
            raise TypeError("annotate_citations did not return a string")
        # A run-away output (many times longer than the target plus every marker an annotation loop can legitimately
        # emit: two per annotation and two more per tag of the target) is recorded in reduced form -- the text that is
        # left when the inserted strings are deleted, as ONE slice -- so that judging it stays cheap.  C09 (deleting the
        # inserted strings gives the target) and C11's lxml verdicts are judged on it exactly; the clauses that need the
        # positions of the markers are not judged on such a record (flag `oversize`).
        bound = len(target) + 18 * max(1, len(anns)) * (2 + 2 * target.count("<"))
        if len(out) > 4 * bound + 2000:
            o["oversize"] = True
            o["items"] = [{"k": "s", "id": 0, "t": _cp(SPLIT.sub("", out)[: 4 * bound + 2000])}]
        else:
            o["items"] = items_of(out)
        if has_src and target != plain:
            from eyecite.annotate import SpanUpdater
            steps = (SpanUpdater.get_diff_steps(plain, target) if use_dmp
                     else list(SpanUpdater.get_diff_steps_builtin(plain, target)))
            o["minimal"] = all(op != "-" for op, _ in steps)
        o["wf"], tc = lxml_judge(out)
        o["tc"] = _cp(tc[: 4 * bound + 2000])
        o["src_wf"], stc = lxml_judge(target)
        o["src_tc"] = _cp(stc)
        o["output"] = out
    except Exception as ex:  # noqa: BLE001
        o["raised"] = f"{type(ex).__name__}: {ex}"
    return o


def run_cfg(payload):
    res = []
    for c in payload["items"]:
        target, plain = render(c["src"], c.get("same", False))
        if not c["hasSrc"]:
            plain = target
        o = annotate_one(plain, target, c["hasSrc"], c["mode"], c["anns"], c.get("dmp", True))
        o["src"] = c["src"]
        res.append(o)
    return res


def run_text(payload):
    """free-form family: items {plain, target, hasSrc, mode, anns, dmp}"""
    res = []
    for c in payload["items"]:
        o = annotate_one(c["plain"], c["target"], c["hasSrc"], c["mode"], c["anns"], c.get("dmp", True))
        o["src"] = []
        res.append(o)
    return res


def run_updater(payload):
    """SpanUpdater on arbitrary string pairs: the diff script the engine returned and
    update() for every offset and both bisections."""
    from bisect import bisect_left, bisect_right
    from eyecite.annotate import SpanUpdater
    res = []
    for c in payload["items"]:
        a, b, dmp = c["a"], c["b"], c["dmp"]
        o = {"la": len(a), "lb": len(b), "dmp": dmp, "raised": "", "script": [], "right": [], "left": []}
        try:
            steps = SpanUpdater.get_diff_steps(a, b) if dmp else list(SpanUpdater.get_diff_steps_builtin(a, b))
            o["script"] = [{"op": op, "n": n} for op, n in steps]
            u = SpanUpdater(a, b, use_dmp=dmp)
            o["right"] = [u.update(x, bisect_right) for x in range(len(a) + 1)]
            o["left"] = [u.update(x, bisect_left) for x in range(len(a) + 1)]
        except Exception as ex:  # noqa: BLE001
            o["raised"] = f"{type(ex).__name__}: {ex}"
        res.append(o)
    return res


def run_pipeline(payload):
    """the real-world pipeline: clean the markup, extract citations from the cleaned text, annotate
    the SOURCE markup with the returned spans (items: {markup, steps, mode, dmp, which})"""
    from eyecite import clean_text, get_citations
    res = []
    for c in payload["items"]:
        try:
            plain = clean_text(c["markup"], c["steps"])
            cs = get_citations(plain)
            if c.get("which") == "full":
                anns = [list(x.full_span()) for x in cs]
            elif c.get("which") == "pin":
                anns = [list(x.span_with_pincite()) for x in cs]
            else:
                anns = [list(x.span()) for x in cs]
            # overlapping full spans are legitimate input for annotate_citations; keep list order sorted
            anns = sorted(anns)
            o = annotate_one(plain, c["markup"], True, c["mode"], anns, c.get("dmp", True))
        except Exception as ex:  # noqa: BLE001
            o = {"target": _cp(c["markup"]), "plain": [], "hasSrc": True, "mode": c["mode"], "anns": [], "dmp": c.get("dmp", True),
                 "raised": f"{type(ex).__name__}: {ex}", "items": [], "wf": True, "tc": [], "src_wf": True, "src_tc": [], "minimal": True,
                 "oversize": False}
        o["src"] = []
        res.append(o)
    return res
