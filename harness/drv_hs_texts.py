"""texts for the synthetic custom extractor lists of drv_hs.custom_pair (stdlib only)"""
CUSTOM_TEXTS = ["B.O.E. n. 123", "B.O.E. n\u00ba 123 and B.O.E. n.\u00ba45", "7 N\u00ba 12; 7 N\u00ba12", "\u2116 5\u00b0 and \u21166", "3 d\u00e9cret 4, 3 DECRET 5", "R\u00e9p. 12\u1d49; R\u00e9p 13",
                "See B.O.E. n. 9, supra, at 3; id. at 4 \u00a7 5", "\u00ab B.O.E. n\u00ba 77 \u00bb \u2014 cit\u00e9"]
