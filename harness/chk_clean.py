"""Check C20: Clean.tla.
 (A) TLC: every text of <= 6 (thorough 8) characters over the six classes: idempotence, no run
     left, other characters kept, composition law for every split of every step list (<= 3 steps,
     incl. an unknown name); every nested document of <= 6 (8) tokens for the html cleaner.
 (B) the same texts (two concretisations each) and documents through the real cleaners.
 (C) Trace_Clean.tla (TLC) judges the recorded outputs and compares them with the model."""
import json
import re
import sys

import vlib
from vlib import Evidence, MachineryError, Verdict, run_tlc, tlc_must_pass, tlc_judge


def main(pid):
    thorough = vlib.tier() == "thorough"
    ev, vd = Evidence(pid), Verdict(pid)
    r = run_tlc("MC_Clean", "MC_Clean_thorough.cfg" if thorough else "MC_Clean_quick.cfg", timeout=3000)
    tlc_must_pass(r, "MC_Clean")
    ev.add_tlc("MC_Clean", r, "MaxLen=%d MaxDoc=%d" % ((8, 8) if thorough else (6, 6)))
    texts, docs = [], []
    for line in r.out.splitlines():
        if line.startswith('<<"T", '):
            texts.append(re.findall(r'"(\w+)"', line[7:]))
        elif line.startswith('<<"D", '):
            docs.append(json.loads(json.loads(line[7:-2])))
    del r
    if not texts or not docs:
        raise MachineryError("nothing emitted")
    items = []
    for cls in texts:
        for v in (0, 1):
            items.append({"cls": cls, "v": v, "lists": len(cls) <= (5 if thorough else 4)})
    obs = vlib.impl_map("drv_clean", "run_text", items)
    fails, drifts = tlc_judge("Trace_Clean", "Trace_Clean.cfg", obs, ev, "texts", chunk=6000)
    total = len(obs)
    for ix, cl in fails:
        o = obs[ix]
        bad = [l for l in o["lists"] if l["whole"] != l["seq"] or l["werr"] != l["serr"]][:2]
        vd.violation(cl, {"kind": "text", "classes": o["cls"], "text": "".join(map(chr, o["x"])), "lists": bad,
                          "iw": o["iw"], "aw": o["aw"], "un": o["un"]}, {"clause": cl, "classes": "-".join(o["cls"])},
                     judge=vlib.J("Trace_Clean", "Trace_Clean.cfg", o), rerun=vlib.R("drv_clean", "run_text", items[ix]))
    for ix, _ in drifts:
        vd.spec_drift("Clean", f"text classes {obs[ix]['cls']}")
    ev.sample({"classes": obs[len(obs) // 2]["cls"], "all_whitespace": obs[len(obs) // 2]["aw"]["f1"]})
    hitems = [{"doc": d["doc"], "v": v} for d in docs for v in (0, 1)]
    hobs = vlib.impl_map("drv_clean", "run_html", hitems)
    fails, drifts = tlc_judge("Trace_Clean", "Trace_Clean.cfg", hobs, ev, "html", chunk=20000)
    total += len(hobs)
    for ix, cl in fails:
        o = hobs[ix]
        vd.violation(cl, {"kind": "html", "markup": o["markup"], "returned": "".join(map(chr, o["out"])), "raised": o["raised"]},
                     {"clause": cl, "tags": "-".join(t.get("tag") or t["k"] for t in o["doc"])},
                     judge=vlib.J("Trace_Clean", "Trace_Clean.cfg", o), rerun=vlib.R("drv_clean", "run_html", hitems[ix]))
    ev.sample({"markup": hobs[len(hobs) // 2]["markup"], "returned": "".join(map(chr, hobs[len(hobs) // 2]["out"]))})
    ev.cov["traces_validated_against_impl"] = total
    ev.cov["evaluations"] = total
    ev.cov["distinct_nontrivial"] = len(texts) * 2 + len(docs) * 2
    ev.cov["rule"] = "every text / document emitted by MC_Clean (bounded-exhaustive), each with two concretisations"
    ev.cov["exhaustive"] = True
    ev.assumptions = ["class representatives: sp ' ', tab, nl {\\n \\r \\f}, nbsp {U+00A0 U+2003}, us '_', ch {a § 1}",
                      "html documents contain at least one element (lxml raises ParserError on empty / blank input); no <title>",
                      "TLC, Json community module"]
    ev.write(vd)
    return vd.exit_code()


if __name__ == "__main__":
    vlib.main_wrapper(sys.argv[1], lambda: main(sys.argv[1]))
