"""Checks C06, C07, C08 (and the resolution part of C04): Resolve.tla.

 (A) TLC model-checks Resolve.tla on the focused alphabets (complete state graphs:
     the state is history-free, so with <= MaxFulls distinct full citations the graph
     covers citation lists of every length).
 (B) TLC emits one behaviour per transition of those graphs (path that first reached
     the state + the symbol), the real resolve_citations is run on each path and on
     every prefix; thorough adds `tlc -simulate` walks over the product alphabet.
 (C) Trace_Resolve.tla (TLC) judges the recorded results: property monitors
     (FAIL -> VIOLATION) and conformance with the model (DRIFT -> SPEC-DRIFT).
"""
import json
import re
import sys

import vlib
from vlib import Evidence, MachineryError, Verdict, run_tlc, tlc_must_pass

CLAUSES = {
    "C06": ["C06.sameobjects", "C06.disjoint", "C06.order", "C06.headfull", "C06.fullonce",
            "C06.shareiff", "C06.unknown"],
    "C07": ["C07.neverguess", "C07.idpredecessor"],
    "C08": ["C08.prefix", "C08.backwards"],
    "C04": ["C04.noraise"],
}
T_RE = re.compile(r'^<<"T", <<([\d, ]*)>>, (\d+), "(\w+)">>$')


def parse_emit(out):
    alpha, paths = None, []
    for line in out.splitlines():
        if line.startswith('<<"ALPHABET"'):
            m = re.match(r'^<<"ALPHABET", (".*")>>$', line)
            alpha = json.loads(json.loads(m.group(1)))
        else:
            m = T_RE.match(line)
            if m:
                paths.append(([int(x) for x in m.group(1).split(",") if x.strip()],
                              int(m.group(2)), m.group(3)))
    if alpha is None:
        raise MachineryError("no ALPHABET line in TLC output")
    return alpha, paths


def judge(alpha, paths, obs, ev, label, batch=20000):
    """Write the trace file(s), run Trace_Resolve under TLC (in batches), return (fails, drifts) with
    1-based trace ids over the whole list."""
    vlib.WORK.mkdir(exist_ok=True)
    import os, time
    traces = []
    for (p, _, _), o in zip(paths, obs):
        traces.append({"p": p, "g": o["groups"] or [], "r": o["raised"] or "",
                       "pre": [[g for g in pre] for pre in o["prefix"]] if not o["raised"] else []})
    fails, drifts = [], []
    for b in range(0, len(traces), batch):
        part = traces[b:b + batch]
        tf = vlib.WORK / f"trace-{os.getpid()}-{time.time_ns()}.json"
        tf.write_text(json.dumps({"alpha": alpha, "traces": part}))
        try:
            r = run_tlc("Trace_Resolve", "Trace_Resolve.cfg", env={"TRACE_FILE": str(tf)}, timeout=3000)
        finally:
            tf.unlink(missing_ok=True)
        tlc_must_pass(r, f"Trace_Resolve {label}")
        done = set()
        for line in r.out.splitlines():
            if line.startswith('<<"FAIL"'):
                m = re.match(r'^<<"FAIL", (\d+), "([\w.]+)">>$', line)
                fails.append((b + int(m.group(1)), m.group(2)))
            elif line.startswith('<<"DRIFT"'):
                m = re.match(r'^<<"DRIFT", (\d+), (\d+), (.*)>>$', line)
                drifts.append((b + int(m.group(1)), int(m.group(2)), m.group(3)))
            elif line.startswith('<<"DONE"'):
                done.add(int(line[9:-2]))
        if len(done) != len(part):
            raise MachineryError(f"Trace_Resolve {label}: {len(done)} of {len(part)} traces consumed to the end")
        ev.add_tlc(f"Trace_Resolve[{label}#{b // batch}]", r, f"{len(part)} recorded traces")
        ev.add_hits(r.out)
        del r
    return fails, drifts


def signature(alpha, path, clause):
    kinds = [alpha[i - 1]["k"] for i in path]
    return {"clause": clause, "kinds": "-".join(kinds)}


def main(pid):
    thorough = vlib.tier() == "thorough"
    ev, vd = Evidence(pid), Verdict(pid)
    import random
    rnd = random.Random(vlib.seed())
    mine = set(CLAUSES[pid])
    total_paths = 0
    distinct = set()        # distinct replayed / extracted lists with at least two citations
    cfgs = ["Names", "Pins", "Keys"]
    const = "M=150 MaxPh=2 MaxFulls=3"
    for n in cfgs:
        # (A) + (B): one TLC run both checks the properties and emits the behaviours
        r = run_tlc("MC_Resolve", f"MC_Resolve_{n}_emit.cfg", timeout=900, coverage=False)
        tlc_must_pass(r, f"MC_Resolve_{n}")
        ev.add_tlc(f"MC_Resolve_{n}", r, const)
        alpha, paths = parse_emit(r.out)
        if thorough is False and len(paths) > 60000:
            # quick tier: every transition out of states at depth <= 3, and a seeded
            # sample of the deeper ones
            shallow = [p for p in paths if len(p[0]) <= 4]
            deep = [p for p in paths if len(p[0]) > 4]
            rnd.shuffle(deep)
            paths = shallow + deep[:max(0, 60000 - len(shallow))]
        obs = vlib.impl_map("drv_resolve", "run", [p for p, _, _ in paths],
                            common={"alphabet": alpha, "prefixes": True})
        total_paths += len(paths)
        distinct.update((n, tuple(p)) for p, _, _ in paths if len(p) >= 2)
        fails, drifts = judge(alpha, paths, obs, ev, n)
        # cross-check of the two TLC layers: the emitted expectation must agree with conformance
        for (p, exp, err), o in zip(paths, obs):
            if o["raised"]:
                continue
            last = len(p)
            got = next((g["m"][0] for g in o["groups"] if last in g["m"]), 0)
            if got != exp and not any(d[0] for d in drifts):
                raise MachineryError(f"emitted expectation {exp} != observed {got} for {p} but no DRIFT reported")
        for tid, cl in fails:
            if cl in mine:
                p = paths[tid - 1][0]
                vd.violation(cl, {"alphabet_cfg": n, "path": p, "citations": [alpha[i - 1] for i in p],
                                  "observed": obs[tid - 1]}, signature(alpha, p, cl),
                             judge=vlib.J("Trace_Resolve", "Trace_Resolve.cfg", {"p": p, **{k: obs[tid - 1][k] for k in ("g", "r", "pre")}}, wrap={"alpha": alpha}),
                             rerun=vlib.R("drv_resolve", "run", p, common={"alphabet": alpha, "prefixes": True}, fields=["g", "r", "pre"]))
        for tid, step, what in drifts:
            vd.spec_drift("Resolve", f"cfg={n} path={paths[tid-1][0]} step={step} {what}")
        ev.sample({"cfg": n, "path": paths[len(paths) // 2][0],
                   "citations": [alpha[i - 1]["k"] for i in paths[len(paths) // 2][0]],
                   "observed_groups": obs[len(paths) // 2]["groups"]})
    # random walks (tlc -simulate) over the product alphabet: the transition replay above visits every state
    # of the history-free model along ONE path, so state the implementation might hide (a cache, a memo) is
    # only met by longer histories; per TLC worker -- quick: 150 walks, thorough: 1,500
    if True:
        r = run_tlc("MC_Resolve", "MC_Resolve_Full_sim.cfg", timeout=900,
                    simulate=f"num={1500 if thorough else 150}", depth=10, extra=["-seed", str(vlib.seed() + 1)])
        if r.errors and not ("Simulation" in r.out or "simulation" in r.out):
            raise MachineryError("simulation failed: " + "\n".join(r.errors[:5]))
        alpha, paths = parse_emit(r.out)
        # keep only maximal walks plus a sample of their prefixes
        paths = [p for p in paths if len(p[0]) >= 6]
        obs = vlib.impl_map("drv_resolve", "run", [p for p, _, _ in paths],
                            common={"alphabet": alpha, "prefixes": True})
        total_paths += len(paths)
        distinct.update(("Full", tuple(p)) for p, _, _ in paths if len(p) >= 2)
        ev.cov["tlc_runs"].append({"name": "MC_Resolve_Full simulate", "walk_prefixes_replayed": len(paths),
                                   "constants": "M=150 MaxPh=3 MaxFulls=6 depth 10"})
        fails, drifts = judge(alpha, paths, obs, ev, "Full-sim", batch=4000)
        for tid, cl in fails:
            if cl in mine:
                p = paths[tid - 1][0]
                vd.violation(cl, {"alphabet_cfg": "Full", "path": p, "citations": [alpha[i - 1] for i in p],
                                  "observed": obs[tid - 1]}, signature(alpha, p, cl),
                             judge=vlib.J("Trace_Resolve", "Trace_Resolve.cfg", {"p": p, **{k: obs[tid - 1][k] for k in ("g", "r", "pre")}}, wrap={"alpha": alpha}),
                             rerun=vlib.R("drv_resolve", "run", p, common={"alphabet": alpha, "prefixes": True}, fields=["g", "r", "pre"]))
        for tid, step, what in drifts:
            vd.spec_drift("Resolve", f"cfg=Full-sim path={paths[tid-1][0]} step={step} {what}")
        # history: the same objects resolved AGAIN after the caller edited them (plaintiffs cleared): the second
        # resolution is judged against the symbols with empty plaintiffs (alphabet extended by them)
        alpha2, remap = list(alpha), {}
        for i, sym in enumerate(alpha, 1):
            if sym["k"] == "fc" and sym["pl"]:
                alpha2.append({**sym, "pl": []})
                remap[i] = len(alpha2)
        epaths = [([remap.get(i, i) for i in p], 0, "") for p, _, _ in paths[:: (1 if thorough else 2)]
                  if any(i in remap for i in p)]
        eobs = vlib.impl_map("drv_resolve", "run_edit", [p for p, _, _ in paths[:: (1 if thorough else 2)] if any(i in remap for i in p)],
                             common={"alphabet": alpha})
        total_paths += len(epaths)
        ev.cov["lists_resolved_again_after_an_edit"] = len(epaths)
        fails, drifts = judge(alpha2, epaths, eobs, ev, "Full-sim-edit", batch=4000)
        for tid, cl in fails:
            if cl in mine:
                p = epaths[tid - 1][0]
                vd.violation(cl, {"alphabet_cfg": "Full, second resolution after the plaintiffs were cleared", "path": p,
                                  "citations": [alpha2[i - 1] for i in p], "observed": eobs[tid - 1]}, signature(alpha2, p, cl),
                             judge=vlib.J("Trace_Resolve", "Trace_Resolve.cfg", {"p": p, **{k: eobs[tid - 1][k] for k in ("g", "r", "pre")}}, wrap={"alpha": alpha2}))
        for tid, step, what in drifts:
            vd.spec_drift("Resolve", f"cfg=Full-sim-edit path={epaths[tid-1][0]} step={step} {what}")
    # beyond the listed properties: the driver loop with USER-SUPPLIED resolvers (ResolveGeneric.tla): TLC checks the
    # loop's laws for every input and callback outcome table, every input is replayed through the real
    # resolve_citations with table-driven callbacks, TLC validates the callbacks' own log and the result
    r = run_tlc("MC_ResolveGeneric", "MC_ResolveGeneric_thorough.cfg" if thorough else "MC_ResolveGeneric_quick.cfg", timeout=1500, coverage=False)
    tlc_must_pass(r, "MC_ResolveGeneric")
    ev.add_tlc("MC_ResolveGeneric", r, "MaxLen=%d, outcomes {None, falsy, R1, R2}" % (4 if thorough else 3))
    gen = [json.loads(json.loads(line[7:-2])) for line in r.out.splitlines() if line.startswith('<<"G", ')]
    del r
    gobs = vlib.impl_map("drv_resolve", "run_generic", gen)
    _, gdrifts = vlib.tlc_judge("Trace_ResolveGeneric", "Trace_ResolveGeneric.cfg", gobs, ev, "generic", chunk=60000)
    for ix, rest in gdrifts:
        vd.spec_drift("ResolveGeneric", f"custom resolvers kinds={gobs[ix]['k']} outcomes={gobs[ix]['o']} at{rest} observed={gobs[ix]['g']} raised={gobs[ix]['r']}")
    ev.cov["generic_resolver_inputs_replayed"] = len(gobs)
    # lists produced by extraction from generated documents (second half of the quantifier of C06-C08)
    import gendocs
    docs = list(gendocs.pairs())
    rnd.shuffle(docs)
    docs = gendocs.reference_docs() + docs[: (6000 if thorough else 1500)] + list(gendocs.random_docs(vlib.seed(), 6000 if thorough else 1500, kmin=3, kmax=9))
    # every example citation of reporters-db next to its neighbours (same reporter, different
    # volume / page, incl. pages written with separators): distinct documents must not share a resource
    ex = vlib.impl_run("drv_extract", "db_examples", {})["reporters"]
    docs += [f"{a}; {b}; {c}. Id. at 3." for a, b, c in zip(ex, ex[1:], ex[2:])][:: (1 if thorough else 2)]
    # the SAME written citation with years that decide between the candidate editions of an ambiguous reporter string
    # (or between an edition name and the editions it also abbreviates), and without a year: equal text, different documents
    import datetime
    today = datetime.date.today().year
    db = vlib.impl_run("drv_extract", "db_strings", {})
    amb_docs = []
    for st in db["strings"]:
        eds = list(st["editions"]) + list(st.get("others", []))
        if len(eds) < 2:
            continue
        rng = {e: ((db["years"][e][0] or 1600), (db["years"][e][1] or today)) for e in eds}
        ys = []
        for e in eds:
            for y in (rng[e][0], rng[e][1], (rng[e][0] + rng[e][1]) // 2):
                if 1600 <= y <= today and all(not (rng[o][0] <= y <= rng[o][1]) for o in eds if o != e):
                    ys.append(y)
                    break
        if len(ys) >= 2:
            S = st["string"]
            amb_docs.append(f"Kappa v. Lomax, 1 {S} 2 ({ys[0]}). Mirren v. Noxon, 1 {S} 2 ({ys[1]}). Zeta v. Yarrow, 1 {S} 2. Id. at 3.")
            amb_docs.append(f"1 {S} 2 ({ys[1]}); 1 {S} 2 ({ys[0]}); 1 {S} 2 ({ys[1]}).")
    ev.cov["same_text_different_year_documents"] = len(amb_docs)
    docs += amb_docs
    docs = [d for d in dict.fromkeys(docs) if d.strip()]
    dobs = vlib.impl_map("drv_resolve", "run_docs", docs)
    # (documents whose objects were resolved a second time after an edition became known contribute a second list)
    for d, o in list(zip(docs, dobs)):
        if o.get("second") and not o["raised"]:
            docs.append(d + "   [second resolution of the same objects after a year / edition was filled in]")
            dobs.append({"cites": o["second"]["cites"], "groups": o["second"]["groups"], "raised": None, "prefix": o["second"]["prefix"]})
    ev.cov["second_resolutions_after_edition_known"] = sum(1 for o in dobs if o.get("second"))
    dtr = [{"p": [0] * len(o["cites"]), "cs": o["cites"], "g": o["groups"] or [], "r": o["raised"] or "",
            "pre": o["prefix"] if not o["raised"] else []} for o in dobs]
    tf_alpha = [{"k": "un", "rv": "", "pg": -2, "pl": [], "df": [], "ag": "-", "nm": [], "pin": -1, "id": ""}]
    import os, time
    vlib.WORK.mkdir(exist_ok=True)
    for b in range(0, len(dtr), 2000):
        part = dtr[b:b + 2000]
        tf = vlib.WORK / f"trace-{os.getpid()}-{time.time_ns()}.json"
        tf.write_text(json.dumps({"alpha": tf_alpha, "traces": part}))
        try:
            r = run_tlc("Trace_Resolve", "Trace_Resolve.cfg", env={"TRACE_FILE": str(tf)}, timeout=1500)
        finally:
            tf.unlink(missing_ok=True)
        tlc_must_pass(r, "Trace_Resolve docs")
        ev.add_tlc(f"Trace_Resolve[docs#{b // 2000}]", r, f"{len(part)} extracted lists")
        ev.add_hits(r.out)
        ndone = 0
        for line in r.out.splitlines():
            if line.startswith('<<"FAIL"'):
                m = re.match(r'^<<"FAIL", (\d+), "([\w.]+)">>$', line)
                ix, cl = b + int(m.group(1)) - 1, m.group(2)
                if cl in mine:
                    vd.violation(cl, {"kind": "extracted list", "text": docs[ix], "citations": dobs[ix]["cites"], "observed": dobs[ix]["groups"]},
                                 {"clause": cl, "kinds": "-".join(c["k"] for c in dobs[ix]["cites"])[:60]},
                                 judge=vlib.J("Trace_Resolve", "Trace_Resolve.cfg", dtr[ix], wrap={"alpha": tf_alpha}))
            elif line.startswith('<<"DRIFT"'):
                m = re.match(r'^<<"DRIFT", (\d+), (.*)>>$', line)
                vd.spec_drift("Resolve", f"extracted list of {docs[b + int(m.group(1)) - 1][:80]!r}: {m.group(2)}")
            elif line.startswith('<<"DONE"'):
                ndone += 1
        if ndone != len(part):
            raise MachineryError(f"Trace_Resolve docs: {ndone} of {len(part)} judged")
    total_paths += len(dtr)
    distinct.update(("doc", d) for d, o in zip(docs, dobs) if len(o["cites"]) >= 2)
    ev.cov["extracted_lists"] = len(dtr)
    ev.cov["traces_validated_against_impl"] = total_paths
    ev.cov["evaluations"] = total_paths
    ev.cov["distinct_nontrivial"] = len(distinct)
    ev.cov["rule"] = ("one citation list per transition of the complete Resolve.tla state graphs "
                      "(path first reaching the state + one alphabet symbol), prefixes of `tlc -simulate` walks, lists extracted "
                      "from generated documents; each is resolved by the real resolve_citations, and every prefix too; "
                      "distinct_nontrivial = distinct (alphabet, list) pairs / documents with at least two citations")
    ev.cov["exhaustive"] = thorough
    ev.cov["clauses_judged"] = sorted(mine)
    ev.assumptions = ["concretisation/projection maps of harness/drv_resolve.py (DESIGN 3.10)",
                      "citations are built from constructors, not extracted (extraction+resolution together is C05)",
                      "TLC, Json community module"]
    ev.write(vd)
    return vd.exit_code()


if __name__ == "__main__":
    pid = sys.argv[1]
    vlib.main_wrapper(pid, lambda: main(pid))
