"""Check C14 (the Hyperscan tokenizer is a drop-in replacement): HsOffsets.tla, HsCache.tla.
 (A) TLC model-checks HsOffsets.tla (every text of <= 5 characters over core / alphanumeric /
     punctuation / 2- and 3-byte characters: no reference candidate lost, every candidate genuine)
     and HsCache.tla (every sequence of constructions, crashes during the cache write and <= 3
     corruptions: never raises, a database is only taken from an intact file).
 (B) every behaviour of HsCache.tla is replayed on a real cache directory; generated legal text with
     multi-byte characters before / after / between / inside citations goes through
     HyperscanTokenizer.extract_tokens and Tokenizer.extract_tokens.
 (C) Trace_Hs.tla (TLC) judges: reference candidates are a subset of the Hyperscan candidates, every
     additional candidate is a genuine match in the full text, get_citations agree when the candidate
     sets coincide without ties; the cache never makes construction raise or changes the tokens;
     hyperscan.loadb treats each fault class as the model assumes.
"""
import json
import os
import random
import shutil
import sys
import time

import gendocs
import vlib
from vlib import Evidence, MachineryError, Verdict, run_tlc, tlc_must_pass, tlc_judge

MB = ["“", "”", "—", "–", "é", "§", "¶", "’", "ü", "…",
      # every UTF-8 length, and the extreme continuation bytes 0x80 / 0xBF in each position
      "¿", "ÿ", "п", "\u0080", "\ufeff", "\ufffd", "\u0800", "😀", "\U0010ffff", "𐀀"]


def texts(rnd, thorough):
    out = []
    frags = gendocs.FRAGMENTS
    for f in frags:
        for mb in MB:
            out += [mb + f, f + mb, mb + f + mb, "x" + mb + f, f + mb + "x", "See " + mb + f + mb + " and " + f]
    for f in frags[:: (1 if thorough else 4)]:
        for i in range(1, len(f)):
            if f[i] == " " or f[i - 1] == " " or not f[i].isalnum():
                mb = MB[(i + len(f)) % len(MB)]
                out.append(f[:i] + mb + f[i:])
    # punctuation runs (ASCII and multi-byte quotation marks mixed) glued to supra / id. / stop words
    runs_after = [".”)", ".’”", ",”", "”.", ".”", ";”]", "’”)", "”)—", "…”"]
    runs_before = ["(“‘", "“(", "(“", "‘“", "[“", "—“"]
    for w in ("Bar, supra", "Twombly, supra, at 10", "Id.", "Id. at 5", "see also", "See", "cert. denied", "citing", "aff'd"):
        for ra in runs_after:
            out.append(f"Foo v. Bar, 1 U.S. 1 (1999). {w}{ra} 2 F.2d 2 (2005)")
        for rb in runs_before:
            out.append(f"Foo v. Bar, 1 U.S. 1 (1999) {rb}{w} 2 F.2d 2 (2005)")
            out.append(f"{rb}{w}{runs_after[len(rb) % len(runs_after)]}")
    docs = list(gendocs.pairs())
    rnd.shuffle(docs)
    for d in docs[: (3000 if thorough else 500)]:
        parts = d.split(" ")
        k = rnd.randrange(len(parts))
        parts[k] = rnd.choice(MB) + parts[k] if rnd.random() < 0.5 else parts[k] + rnd.choice(MB)
        out.append(" ".join(parts))
    return [t for t in dict.fromkeys(out)]


def main(pid):
    thorough = vlib.tier() == "thorough"
    ev, vd = Evidence(pid), Verdict(pid)
    rnd = random.Random(vlib.seed())
    r = run_tlc("MC_HsOffsets", "MC_HsOffsets_TRUE.cfg", timeout=900)
    tlc_must_pass(r, "MC_HsOffsets")
    ev.add_tlc("MC_HsOffsets", r, "MaxLen=5")
    r = run_tlc("MC_HsCache", "MC_HsCache_TRUE.cfg" if thorough else "MC_HsCache_quick.cfg", timeout=900)
    tlc_must_pass(r, "MC_HsCache")
    ev.add_tlc("MC_HsCache", r, "MaxFaults=%d" % (3 if thorough else 2))
    behs = sorted({line for line in r.out.splitlines() if line.startswith('<<"B", ')})
    behs = [json.loads(json.loads(b[7:-2])) for b in behs]
    del r
    if not behs:
        raise MachineryError("no cache behaviours emitted")
    cobs = vlib.impl_map("drv_hs", "run_cache", behs, common={"seed": vlib.seed()})
    fails, drifts = tlc_judge("Trace_Hs", "Trace_Hs.cfg", cobs, ev, "cache", chunk=5000)
    for ix, cl in fails:
        if cl.startswith("C14"):
            bad = [e for e in cobs[ix]["events"] if e["raised"] or not e["same"]][:2]
            vd.violation(cl, {"behaviour": behs[ix], "events": cobs[ix]["events"]},
                         {"clause": cl, "after": next((behs[ix][k - 1] for k, e in enumerate(cobs[ix]["events"]) if (e["raised"] or not e["same"]) and k > 0), "")},
                         judge=vlib.J("Trace_Hs", "Trace_Hs.cfg", cobs[ix]),
                         rerun=vlib.R("drv_hs", "run_cache", behs[ix], common={"seed": vlib.seed()}))
    for ix, _ in drifts:
        vd.spec_drift("HsCache", f"hyperscan.loadb outcome differs from the model's Load: {[(e['ev'], e['load']) for e in cobs[ix]['events'] if e['load']]}")
    ev.sample({"cache_behaviour": behs[len(behs) // 2]})
    # candidates
    tx = texts(rnd, thorough)
    hs_dir = vlib.WORK / f"hs-{os.getpid()}-{time.time_ns()}"
    hs_dir.mkdir(parents=True)
    env = {"VERIF_HS_CACHE": str(hs_dir)}
    vlib.impl_run("drv_hs", "run_cands", {"items": [{"text": "1 U.S. 1"}]}, env=env)
    # the documented `extractors=` configuration: custom extractor lists (a reversed sample of the default list;
    # synthetic patterns with multi-byte characters the default list does not use) x their own texts and the
    # multi-byte texts.  Every driver process gets its share of them FIRST, so a tokenizer over another list has been
    # built and used before the default Hyperscan tokenizer is (history).
    import drv_hs_texts
    citems = [{"text": t, "custom": w} for w in (0, 1) for t in drv_hs_texts.CUSTOM_TEXTS + tx[:: (40 if thorough else 120)]]
    ditems = [{"text": t} for t in tx]
    nchunk = vlib.NCPU
    chunks = [[] for _ in range(nchunk)]
    for i, it in enumerate(citems):
        chunks[i % nchunk].append(it)
    for i, it in enumerate(ditems):
        chunks[i % nchunk].append(it)
    flat = [it for ch in chunks for it in ch]
    sizes = [len(ch) for ch in chunks]
    from concurrent.futures import ThreadPoolExecutor
    with ThreadPoolExecutor(nchunk) as ex:
        futs = [ex.submit(vlib.impl_run, "drv_hs", "run_cands", {"items": ch}, env=env) for ch in chunks if ch]
        obs = [o for f in futs for o in f.result()]
    tx = [it["text"] for it in flat]
    ev.cov["custom_extractor_list_items"] = len(citems)
    ev.cov["second_call_differs"] = sum(1 for o in obs if o.get("second_call"))
    shutil.rmtree(hs_dir, ignore_errors=True)
    for o in obs:
        o["kind"] = "cands"
    fails, _ = tlc_judge("Trace_Hs", "Trace_Hs.cfg", obs, ev, "cands", chunk=3000)
    for ix, cl in fails:
        if cl.startswith("C14"):
            o = obs[ix]
            vd.violation(cl, {"text": o["text"], "missing": sorted(set(o["ref"]) - set(o["hs"]))[:5],
                              "extra": sorted(set(o["hs"]) - set(o["ref"]))[:5], "extra_genuine": o["extra_genuine"][:5],
                              "cit_equal": o["cit_equal"]}, {"clause": cl},
                         judge=vlib.J("Trace_Hs", "Trace_Hs.cfg", o),
                         rerun=vlib.R("drv_hs", "run_cands", {"text": tx[ix]}, hs_cache=True, fields=[k for k in o if k != "kind"]))
    ev.sample({"text": obs[0]["text"], "candidates": len(obs[0]["hs"])})
    ev.cov["traces_validated_against_impl"] = len(obs) + len(cobs)
    ev.cov["evaluations"] = len(obs) + len(cobs)
    ev.cov["distinct_nontrivial"] = sum(1 for o in obs if o["hs"]) + len(behs)
    ev.cov["texts_with_extra_hyperscan_candidates"] = sum(1 for o in obs if o["extra_genuine"])
    ev.cov["citations_compared"] = sum(1 for o in obs if set(o["hs"]) == set(o["ref"]) and not o["ties"])
    ev.cov["cache_behaviours"] = len(behs)
    ev.cov["rule"] = ("texts: every citation fragment x 10 multi-byte characters x 6 placements, multi-byte characters inserted inside fragments, "
                      "fragment-pair documents with a multi-byte character glued to a word; cache: every behaviour of HsCache.tla")
    ev.assumptions = ["domain of C14: generated texts contain no non-ASCII whitespace, digits or case variants of ASCII letters",
                      "cache replay uses a 45-extractor tokenizer (full-list compile takes 14 s per construction)",
                      "'genuine' is established by re-matching the extractor patterns on the FULL text at the candidate's offset (witness computed by the harness)"]
    ev.write(vd)
    return vd.exit_code()


if __name__ == "__main__":
    vlib.main_wrapper(sys.argv[1], lambda: main(sys.argv[1]))
