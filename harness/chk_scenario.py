"""Check C05 (unambiguous references are grouped with the case they refer to): Scenario.tla.
 (A) TLC model-checks Scenario.tla (on top of Resolve.tla): every document of <= 5 sentences over 2-3
     distinct cases with distinct or colliding (reporter, volume): each full / short (with or without
     antecedent) / supra / id. (no pin, pin inside, before, beyond the opinion) / section sentence with
     its intended antecedent: the model groups every unambiguous reference with its intended case and
     leaves out what must be left out; one resource per case.
 (B) every scenario is rendered into ONE running text; get_citations + resolve_citations run on it.
 (C) Trace_Scenario.tla (TLC) judges the recorded grouping: one resource per case, unambiguous
     references with their case, impossible-pin ids and ids after an unresolved citation left out.
"""
import json
import random
import sys

import vlib
from vlib import Evidence, MachineryError, Verdict, run_tlc, tlc_must_pass, tlc_judge

CASES = {
    "TwoDistinct": [{"rv": "r1", "pg": 100, "pl": ["a"], "df": ["b"]}, {"rv": "r2", "pg": 300, "pl": ["c"], "df": ["d"]}],
    "TwoColliding": [{"rv": "r1", "pg": 100, "pl": ["a"], "df": ["b"]}, {"rv": "r1", "pg": 300, "pl": ["c"], "df": ["d"]}],
    "ThreeMixed": [{"rv": "r1", "pg": 100, "pl": ["a"], "df": ["b"]}, {"rv": "r1", "pg": 300, "pl": ["c"], "df": ["d"]},
                   {"rv": "r2", "pg": 50, "pl": ["e"], "df": ["f"]}],
}


def main(pid):
    thorough = vlib.tier() == "thorough"
    ev, vd = Evidence(pid), Verdict(pid)
    rnd = random.Random(vlib.seed())
    total = judged = 0
    for name, cases in CASES.items():
        cfg = f"MC_Scenario_{name}.cfg"
        if thorough:
            cfgp = vlib.WORK / f"{name}-6.cfg"
            vlib.WORK.mkdir(exist_ok=True)
            cfgp.write_text((vlib.SPEC / cfg).read_text().replace("MaxItems = 5", "MaxItems = 6"))
            cfg = str(cfgp)
        r = run_tlc("MC_Scenario", cfg, timeout=3000)
        tlc_must_pass(r, f"MC_Scenario_{name}")
        ev.add_tlc(f"MC_Scenario_{name}", r, f"{len(cases)} cases, MaxItems={6 if thorough else 5}")
        scen = [json.loads(json.loads(l[7:-2])) for l in r.out.splitlines() if l.startswith('<<"S", ')]
        del r
        if not scen:
            raise MachineryError("no scenarios emitted")
        if not thorough and len(scen) > 30000:
            rnd.shuffle(scen)
            scen = scen[:30000]
        if thorough and len(scen) > 250000:
            rnd.shuffle(scen)
            scen = scen[:250000]
        # every 9th scenario once more with more than MAX_MATCH_CHARS of uninterrupted prose in front of every
        # reference (the antecedent scan then works on a truncated window)
        scen = scen + [[dict(it, filler=it["kind"] != "full") for it in sc] for sc in scen[::9]]
        obs = vlib.impl_map("drv_extract", "run_scenarios", scen, common={"cases": cases})
        # every 12th scenario once more with reporter strings that are the name of two editions in different reporters
        # ('12 Met. 100 (1845)' ... '12 Met., at 102': the year picks an edition for the full citation only)
        alt = scen[::12]
        obs += vlib.impl_map("drv_extract", "run_scenarios", alt, common={"cases": cases, "alt": True})
        is_alt = [False] * len(scen) + [True] * len(alt)
        scen = scen + alt
        fails, drifts = tlc_judge("Trace_Scenario", "Trace_Scenario.cfg", obs, ev, name, chunk=40000)
        total += len(obs)
        judged += len(obs) - len(drifts)
        for ix, cl in fails:
            if cl.startswith("C05"):
                o = obs[ix]
                vd.violation(cl, {"cases": cases, "text": o["text"], "items": o["items"]},
                             {"clause": cl, "kinds": "-".join(i["kind"] for i in o["items"]), "config": name},
                             judge=vlib.J("Trace_Scenario", "Trace_Scenario.cfg", o),
                             rerun=vlib.R("drv_extract", "run_scenarios", scen[ix], common={"cases": cases, "alt": is_alt[ix]}))
        if len(drifts) > len(obs) // 2:
            raise MachineryError(f"{len(drifts)} of {len(obs)} scenario documents were not extracted as written")
        ev.sample({"config": name, "text": obs[len(obs) // 2]["text"], "groups": [i["group"] for i in obs[len(obs) // 2]["items"]]})
    ev.cov["traces_validated_against_impl"] = total
    ev.cov["evaluations"] = total
    ev.cov["distinct_nontrivial"] = judged
    ev.cov["documents_not_extracted_as_written_not_judged"] = total - judged
    ev.cov["rule"] = "every scenario of Scenario.tla (quick: <= 30000 per case configuration, seeded) rendered into one running text; non-trivial = every sentence extracted as written"
    ev.assumptions = ["party names are code words none of which contains another; reporter strings whose normalisation does not depend on a year (U.S., F.3d)",
                      "a scenario sentence that is not extracted as exactly one citation of the written kind makes the document 'not judged' (extraction is C01)"]
    ev.write(vd)
    return vd.exit_code()


if __name__ == "__main__":
    vlib.main_wrapper(sys.argv[1], lambda: main(sys.argv[1]))
