"""Check C15 (extraction is a pure function of its input): Purity.tla.
 (A) TLC model-checks Purity.tla: 2 threads x 3 calls x 3 texts, every interleaving of the four
     steps of a call, shared compiled-pattern cache, list-order iteration: every completed call
     returned F(text); returned results never change.
 (B) TLC emits every call-level history (starts / returns of the calls on two threads); each is
     replayed with real threads in fresh processes started with different PYTHONHASHSEED, the
     abstract texts bound to a corpus that contains every text found on which two patterns match
     the same characters without merging.
 (C) Trace_Purity.tla (TLC) judges every recorded call against the single-threaded fresh-process
     baseline (same result), re-serialisation at the end (frozen) and the input (unchanged).
"""
import json
import os
import random
import re
import sys
import time

import gendocs
import vlib
from vlib import Evidence, MachineryError, Verdict, run_tlc, tlc_must_pass, tlc_judge


def main(pid):
    thorough = vlib.tier() == "thorough"
    ev, vd = Evidence(pid), Verdict(pid)
    rnd = random.Random(vlib.seed())
    r = run_tlc("MC_Purity", "MC_Purity_fixed.cfg", timeout=900)
    tlc_must_pass(r, "MC_Purity_fixed")
    ev.add_tlc("MC_Purity_fixed", r, "2 threads, 3 calls, 3 texts, 3 extractors (one tie group)")
    r = run_tlc("MC_Purity", "MC_Purity_emit.cfg", timeout=900)
    tlc_must_pass(r, "MC_Purity_emit")
    hists = sorted({line for line in r.out.splitlines() if line.startswith('<<"H", ')})
    hists = [json.loads(json.loads(h[7:-2])) for h in hists]
    ev.add_tlc("MC_Purity_emit", r, "call-level histories")
    if not hists:
        raise MachineryError("no histories emitted")
    # corpus
    vlib.WORK.mkdir(exist_ok=True)
    nfa_file = vlib.WORK / f"nfa-{os.getpid()}-{time.time_ns()}.json"
    vlib.impl_run("drv_aho", "nfa", {"out": str(nfa_file)})
    aux = json.loads(open(str(nfa_file) + ".aux").read())
    nfa_file.unlink(missing_ok=True)
    os.unlink(str(nfa_file) + ".aux")
    wit = [w for w in aux["witness"] if w]
    cand = wit if thorough else wit[::3]
    cand += ["supra,§,", "1 CCH Unemployment Ins. Rep. 1", "Smith v. Smith, 410 U.S. 113 (1973). Smith at 121."]
    ties = vlib.impl_map("drv_purity", "find_ties", cand)
    tie_texts = [t for t, f in zip(cand, ties) if f]
    docs = list(gendocs.pairs())
    rnd.shuffle(docs)
    special = ["Smith v. Smith, 410 U.S. 113 (1973). Later, Smith at 121, the court said so.",
               "Doe v. Doe, 12 F.3d 345 (2d Cir. 1993). See Doe at 350; Doe, supra, at 351.",
               "supra,§,", "1 CCH Unemployment Ins. Rep. 1", "1 Wash. 1 (1870)", "3 Rob. 5; 4 Johns. 5 (N.Y. 1809)"]
    corpus = special + tie_texts + [f"See {t} (1999); {t}." for t in tie_texts[:200]] + docs[:(1500 if thorough else 300)] \
        + list(gendocs.random_docs(vlib.seed(), 300 if thorough else 80, hostile=True))
    corpus = [t for t in dict.fromkeys(corpus) if "\ud800" not in t and t != "eyecite"]
    hs_dir = vlib.WORK / f"hs-{os.getpid()}-{time.time_ns()}"
    hs_dir.mkdir(parents=True)
    hsenv = {"VERIF_HS_CACHE": str(hs_dir)}
    base = vlib.impl_run("drv_purity", "baseline", {"texts": corpus}, env={"PYTHONHASHSEED": "0", **hsenv})
    items = []
    n = len(corpus)
    reps = max(1, (n // (3 * len(hists))) + 1)
    j = 0
    for _ in range(reps):
        for h in hists:
            # every third history has OTHER tokenizers built and used between its calls (see drv_purity.other_job)
            items.append({"hist": h, "bind": {"A": j % n, "B": (j + 1) % n, "C": (j + 2) % n}, "opt": (j // 3) % 6,
                          "other": (j // 3) % 3 == 1})
            j += 3
    seeds = [0, 1, 2, 3, 4, 5, 11 + vlib.seed(), 97 + vlib.seed()] + (list(range(100, 124)) if thorough else [])
    from concurrent.futures import ThreadPoolExecutor
    with ThreadPoolExecutor(min(len(seeds), vlib.NCPU)) as ex:
        futs = {s: ex.submit(vlib.impl_run, "drv_purity", "run_histories",
                             {"items": items, "common": {"texts": corpus, "full": False}},
                             env={"PYTHONHASHSEED": str(s), **hsenv}) for s in seeds}
        results = {s: f.result() for s, f in futs.items()}
    import shutil
    shutil.rmtree(hs_dir, ignore_errors=True)
    ev.cov["histories_with_other_tokenizers_between_calls"] = sum(1 for it in items if it["other"])
    recs = []
    for s in seeds:
        for hi, calls in enumerate(results[s]):
            for c in calls:
                recs.append({"seed": s, "hist": hi, "text": c["text"], "opt": c["opt"], "th": c["th"], "d": c["d"],
                             "dend": c["dend"], "same_input": c["same_input"], "nonempty": base[c["text"]][c["opt"]] != "[]", "base": vlib.sha(base[c["text"]][c["opt"]]) and
                             __import__("hashlib").sha1(base[c["text"]][c["opt"]].encode("utf8", "surrogatepass")).hexdigest()[:16]})
    # deterministic schedules: two threads, one pre-emption at every k-th function-call event of an
    # eyecite frame (harness/sched.py); (a) many k in one process, (b) each k in a FRESH process so that
    # the two calls are the first calls of the process (lazy initialisation)
    import hashlib
    def bd(i, opt=0):
        return hashlib.sha1(base[i][opt].encode("utf8", "surrogatepass")).hexdigest()[:16]
    idx = {t: i for i, t in enumerate(corpus)}
    pair_texts = (special + tie_texts)[:24]
    pairs = [[pair_texts[i], pair_texts[(i + 5) % len(pair_texts)]] for i in range(len(pair_texts))]
    pairs[0] = [special[0], special[1]]
    ks_a = list(range(0, 330, 2 if thorough else 5))
    jobs = [{"pairs": [p], "ks": ks_a} for p in pairs]
    with ThreadPoolExecutor(vlib.NCPU) as ex:
        futs = [ex.submit(vlib.impl_run, "sched", "run", j, env={"PYTHONHASHSEED": str(3 + n % 5)}) for n, j in enumerate(jobs)]
        sres = [x for f in futs for x in f.result()]
    # how many yield points does the FIRST call of a process have?  (lazy initialisation makes it longer
    # than later calls; the pre-emption points are spread over that length)
    probe = vlib.impl_run("sched", "run", {"pairs": [pairs[0]], "ks": [10 ** 9], "want_names": True}, env={"PYTHONHASHSEED": "0"})
    first_len = max(probe[0]["steps"][0], 330)
    # pre-emption points: the first three entries of every distinct function (code name) of the first
    # call -- so a lazy initialiser is interrupted inside each of its steps -- plus an even spread
    seen_name = {}
    by_name = set()
    for pos, nm in enumerate(probe[0]["names"]):
        seen_name[nm] = seen_name.get(nm, 0) + 1
        if seen_name[nm] <= 3:
            by_name.update({pos, pos + 1})
    nfresh = 96 if thorough else 40
    spread = sorted({int(first_len * i / nfresh) for i in range(nfresh)} | by_name)
    ev.cov["distinct_functions_at_yield_points"] = len(seen_name)
    ev.cov["fresh_preemption_points"] = spread[:400]
    # the fresh-process schedules use texts that exercise every token kind (stop words, id., supra,
    # references, several reporters), so that a lost extractor class is visible in the result
    rich = [special[0], special[1]]
    fresh = [{"pairs": [rich if n % 2 == 0 else list(reversed(rich))], "ks": [k]} for n, k in enumerate(spread)]
    with ThreadPoolExecutor(vlib.NCPU) as ex:
        futs = [ex.submit(vlib.impl_run, "sched", "run", j, env={"PYTHONHASHSEED": str(n % 7)}) for n, j in enumerate(fresh)]
        fres = [x for f in futs for x in f.result()]
    nsched = 0
    for kind, rs in (("sched", sres), ("fresh", fres)):
        for x in rs:
            nsched += 1
            for t, d in ((x["a"], x["da"]), (x["b"], x["db"])):
                recs.append({"seed": -1, "hist": -1, "text": idx[t], "opt": 0, "th": f"{kind}:k={x['k']}", "d": d, "dend": d,
                             "same_input": True, "nonempty": base[idx[t]][0] != "[]", "base": bd(idx[t])})
    ev.cov["deterministic_schedules"] = nsched
    ev.cov["first_call_yield_points"] = first_len
    ev.cov["yield_points_per_call"] = max((max(x["steps"]) for x in sres), default=0)
    fails, _ = tlc_judge("Trace_Purity", "Trace_Purity.cfg", recs, ev, "calls", chunk=50000)
    seen = set()
    for ix, cl in fails:
        rc = recs[ix]
        key = (cl, rc["text"], rc["opt"])
        if key in seen:
            continue
        seen.add(key)
        vd.violation(cl, {"text": corpus[rc["text"]], "option_set": ["plain", "remove_ambiguous", "plain + clean_steps", "markup mode", "markup mode, steps without html", "tokenizer=HyperscanTokenizer"][rc["opt"]], "seed": rc["seed"],
                          "thread": rc["th"], "history": items[rc["hist"]]["hist"] if rc["hist"] >= 0 else rc["th"],
                          "baseline_seed0": base[rc["text"]][rc["opt"]][:1500]},
                     {"clause": cl, "tie_text": corpus[rc["text"]] in tie_texts},
                     judge=vlib.J("Trace_Purity", "Trace_Purity.cfg", rc))
    ev.sample({"history": hists[len(hists) // 2], "texts_with_unmerged_ties": tie_texts[:6]})
    ev.cov["traces_validated_against_impl"] = len(recs)
    ev.cov["evaluations"] = len(recs)
    ev.cov["distinct_nontrivial"] = len(corpus) * len(seeds)
    ev.cov["rule"] = ("every call-level history of the Purity.tla instance x hash seeds, texts bound round-robin to the corpus; "
                      "distinct = (corpus text, seed) pairs; non-trivial corpus part = texts with unmerged equal-span candidates")
    ev.cov["corpus_texts"] = len(corpus)
    ev.cov["tie_texts"] = len(tie_texts)
    ev.cov["seeds"] = seeds
    ev.cov["histories"] = len(hists)
    ev.assumptions = ["threads are free-running inside a call (1 microsecond switch interval); only the order of call starts and "
                      "returns follows the TLC history -- CPython's scheduler is not enumerated",
                      "candidate editions are compared in their tuple order (defect F24: the order followed the hash seed; fixed)",
                      "the baseline is the first call in a fresh single-threaded process with PYTHONHASHSEED=0"]
    ev.write(vd)
    return vd.exit_code()


if __name__ == "__main__":
    vlib.main_wrapper(sys.argv[1], lambda: main(sys.argv[1]))
