"""Check C01 (standard citation forms are recognised with exact components and offsets): Forms.tla.
 (A) TLC enumerates every valid document shape of the citation grammar Forms.tla (form x lead x party
     shape x pre-citation year x pin-cite shape x parallel cite x year / court / bracket x
     parenthetical shape x terminator x trailing text: ~9,200 shapes) and checks that the slot-level
     ground truth Expected(shape) is internally consistent.
 (B) each shape is concretised (reporter strings, party names, numbers, courts from courts-db) and
     extracted; every reporter string of reporters-db is run through the minimal 'vol R page' and
     'vol R at page' forms (examples for editions with custom templates), every law / journal key too.
 (C) Trace_Forms.tla (TLC) compares the projected result with the concrete expectation with exactly the
     tolerances the property grants.
"""
import json
import os
import random
import shutil
import time
import sys

import forms
import vlib
from vlib import Evidence, MachineryError, Verdict, run_tlc, tlc_must_pass, tlc_judge

NAMES = [("Kappa", "Lomax"), ("Mirren", "Noxon"), ("Pruitt", "Quillfeather"), ("Ostrander", "Vandermeer"),
         ("Smith-Jones", "O'Brien"), ("St. Kilda", "McDonald-Webb")]
REPS = [("U.S.", "410", "113"), ("F.3d", "12", "345"), ("F. Supp. 2d", "5", "100"), ("N.E.2d", "200", "15"), ("Cal. 4th", "29", "300"),
        ("S. Ct.", "93", "705"), ("A.2d", "77", "8")]
PARS = [("S. Ct.", "93", "705"), ("L. Ed. 2d", "35", "147"), ("P.2d", "493", "880")]


def mechanism(cl, ex, ob):
    """abstract mechanism of a failing case (for known findings): the written antecedent is not a plain
    capitalised word and the extracted antecedent guess is a proper suffix of it"""
    import re
    if cl in ("C01.antecedent", "C01.fullstart") and ex and ob and len(ex) == len(ob):
        w, o = ex[0]["antecedent"], ob[0]["antecedent"]
        if w and o and w != o and w.endswith(o) and not re.fullmatch(r"[A-Z][a-z]+", w):
            return "antecedent-cut-at-punctuation-or-inner-capital"
    return ""


def conc_pool(rnd, courts, n):
    out = []
    for i in range(n):
        R, vol, page = REPS[i % len(REPS)] if i < len(REPS) else rnd.choice(REPS)
        pl, df = NAMES[i % len(NAMES)]
        c = courts[(i * 7) % len(courts)]
        par = PARS[i % len(PARS)]
        out.append({"R": R, "vol": vol, "page": page, "pl": pl, "df": df, "year": 1950 + (i * 13) % 70, "court": c["string"], "court_ids": c["ids"],
                    "par": par[0], "parvol": par[1], "parpage": par[2], "groups": {"volume": vol, "reporter": R, "page": page},
                    "shortcomma": i % 2 == 1, "idform": ["Id.", "Id.,", "Ibid."][i % 3]})
    return out


def main(pid):
    thorough = vlib.tier() == "thorough"
    ev, vd = Evidence(pid), Verdict(pid)
    rnd = random.Random(vlib.seed())
    r = run_tlc("MC_Forms", "MC_Forms.cfg", timeout=900)
    tlc_must_pass(r, "MC_Forms")
    ev.add_tlc("MC_Forms", r, "all valid shapes")
    shapes = [json.loads(json.loads(l[7:-2])) for l in r.out.splitlines() if l.startswith('<<"F", ')]
    del r
    if not shapes:
        raise MachineryError("no shapes emitted")
    db = vlib.impl_run("drv_extract", "courts_and_strings", {})
    dbs = vlib.impl_run("drv_extract", "db_strings", {})
    assoc = {}
    for s in dbs["strings"]:
        assoc[s["string"]] = sorted({e.split("#", 2)[2] for e in s["editions"]})
    courts = [c for c in db["courts"] if len(c["string"]) >= 3]
    rnd.shuffle(courts)
    pool = conc_pool(rnd, courts, 40 if thorough else 8)
    items, exps, metas = [], [], []

    def add(shape, exp, conc, label, want_ties=False):
        if shape["form"] == "id" and conc.get("idform") == "Ibid." and shape["pin"] != "none":
            conc = dict(conc, idform="Id.")
        if shape["form"] == "id" and conc.get("idform") == "Id.," and shape["pin"] == "none":
            conc = dict(conc, idform="Id.")
        if shape["form"] == "law":
            conc = dict(conc, core="Mass. Gen. Laws ch. 1, § 2", groups={"reporter": "Mass. Gen. Laws"}, publisher="West" if conc["year"] % 2 else "")
        if shape["form"] == "journal":
            conc = dict(conc, core="1 Minn. L. Rev. 5", R="Minn. L. Rev.", vol="1", page="5", groups={"volume": "1", "reporter": "Minn. L. Rev.", "page": "5"})
        if shape["form"] in ("supra", "id"):
            conc = dict(conc, groups={})
        if shape["form"] == "short":
            conc = dict(conc, groups={"volume": conc["vol"], "reporter": conc["R"]})
        text, ex = forms.expected(shape, exp, conc)
        for e in ex:
            e["yearnum"] = int(e["year"]) if e["year"] else -1
            e["plaintiff_cp"] = [ord(c) for c in e["plaintiff"]]
        items.append({"text": text, "want_ties": want_ties})
        exps.append(ex)
        metas.append({"label": label, "shape": shape})

    per = 3 if thorough else 1
    for si, sh in enumerate(shapes):
        for j in range(per):
            add(sh["shape"], sh["exp"], pool[(si + j * 5) % len(pool)], "shape")
            # the configuration remove_ambiguous=True: the pool's reporter strings each name exactly one edition (also
            # with a year outside that edition's dates), so nothing written here is ambiguous and the expectation is the same
            add(sh["shape"], sh["exp"], pool[(si + j * 5) % len(pool)], "shape-ra")
            items[-1]["ra"] = True
            if si % 12 == 0:
                # ... and the Hyperscan tokenizer (built after another Hyperscan tokenizer over a custom extractor list)
                add(sh["shape"], sh["exp"], pool[(si + j * 5) % len(pool)], "shape-hs")
                items[-1]["tok"] = "hs"
    # the database dimension: minimal forms for every reporter string with the plain template
    minimal_full = next(s for s in shapes if s["shape"] == {"form": "full", "lead": "prose", "parties": "none", "preyear": False, "pin": "none",
                                                            "parallel": False, "yp": "none", "paren": "none", "term": "dot", "trail": "sentence"})
    minimal_short = next(s for s in shapes if s["shape"] == {"form": "short", "lead": "in", "parties": "ante", "preyear": False, "pin": "p",
                                                             "parallel": False, "yp": "none", "paren": "none", "term": "dot", "trail": "sentence"})
    reps = [x for x in db["reporters"] if x["minimal"]]
    plain_strings = {x["string"] for x in reps if x["plain"]}
    # editions (whose reporters-db templates admit the minimal form) that the database lists the string for
    assoc = {}
    for x in reps:
        assoc.setdefault(x["string"], set()).add(x["edition"])
    assoc = {k: sorted(v) for k, v in assoc.items()}
    seen = set()
    quirks = 0
    for x in reps:
        if x["string"] in seen:
            continue
        if x["string"].endswith(",") or x["string"].endswith(" at"):
            # database quirks the property excludes: a variation ending in a comma is matched by a
            # second group structure, a variation ending in " at" reads as a short form
            quirks += 1
            continue
        seen.add(x["string"])
        base = dict(pool[0], R=x["string"], vol="12", page="345", editions=assoc.get(x["string"], []), check_editions=True)
        g = {"volume": "12", "reporter": x["string"], "page": "345"} if x["string"] in plain_strings else {"reporter": x["string"], "page": "345"}
        add(minimal_full["shape"], minimal_full["exp"], dict(base, groups=g), "db-full", True)
        add(minimal_short["shape"], minimal_short["exp"], dict(base, shortcomma=False), "db-short", True)
    # journals: every key / variation whose reporters-db templates admit the minimal form, bare and with
    # pin cite, year and parenthetical
    jshape_min = next(x for x in shapes if x["shape"] == {"form": "journal", "lead": "prose", "parties": "none", "preyear": False, "pin": "none",
                                                          "parallel": False, "yp": "none", "paren": "none", "term": "dot", "trail": "sentence"})
    jshape_rich = next(x for x in shapes if x["shape"] == {"form": "journal", "lead": "see", "parties": "none", "preyear": False, "pin": "p",
                                                           "parallel": False, "yp": "year", "paren": "simple", "term": "dot", "trail": "parens"})
    njournal = shared_strings = 0
    reporter_strings = {x["string"] for x in db["reporters"]}
    for j in db["journals"]:
        if not j["minimal"] or j["string"].endswith(",") or j["string"].endswith(" at"):
            continue
        if j["string"] in reporter_strings:
            # the same string is a reporter string: the library reads it as a case citation; which
            # database a shared string belongs to is not fixed by the property (counted)
            shared_strings += 1
            continue
        njournal += 1
        for sh in (jshape_min, jshape_rich):
            conc = dict(pool[0], R=j["string"], vol="12", page="345", year=1990)
            text, ex = forms.expected(sh["shape"], sh["exp"], dict(conc, core=f"12 {j['string']} 345",
                                                                    groups={"volume": "12", "reporter": j["string"], "page": "345"}))
            for e in ex:
                e["yearnum"] = int(e["year"]) if e["year"] else -1
                e["plaintiff_cp"] = []
            items.append({"text": text, "want_ties": True})
            exps.append(ex)
            metas.append({"label": "db-journal", "shape": sh["shape"]})
    # laws: every example citation of laws.json (the written core is the example; statutes carry their
    # own pin cite syntax, so the span must start at the example and end inside it)
    lshape = next(x for x in shapes if x["shape"] == {"form": "law", "lead": "prose", "parties": "none", "preyear": False, "pin": "none",
                                                      "parallel": False, "yp": "none", "paren": "none", "term": "semi", "trail": "sentence"})
    nlaw = 0
    for law in db["laws"]:
        for exa in law["examples"]:
            nlaw += 1
            text, ex = forms.expected(lshape["shape"], lshape["exp"], dict(pool[0], core=exa, groups={}, e_upper=True))
            for e in ex:
                e["yearnum"] = -1
                e["plaintiff_cp"] = []
                e["fe"] = -1            # the end of a statute citation inside the example is not specified
            items.append({"text": text, "want_ties": False})
            exps.append(ex)
            metas.append({"label": "db-law", "shape": lshape["shape"]})
    # courts: every parenthetical-safe court string of courts-db in a full case citation
    cshape = next(x for x in shapes if x["shape"] == {"form": "full", "lead": "none", "parties": "pv", "preyear": False, "pin": "p",
                                                      "parallel": False, "yp": "court", "paren": "none", "term": "dot", "trail": "sentence"})
    allcourts = [c for c in db["courts"] if len(c["string"]) >= 2]
    for c in (allcourts if thorough else allcourts[:: 4]):
        add(cshape["shape"], cshape["exp"], dict(pool[1], court=c["string"], court_ids=c["ids"]), "db-court")
    hs_dir = vlib.WORK / f"hs-{os.getpid()}-{time.time_ns()}"
    hs_dir.mkdir(parents=True)
    env = {"VERIF_HS_CACHE": str(hs_dir)}
    vlib.impl_run("drv_extract", "run_forms", {"items": [{"text": "1 U.S. 1", "tok": "hs"}]}, env=env)     # compile the databases once
    obs = vlib.impl_map("drv_extract", "run_forms", items, env=env)
    shutil.rmtree(hs_dir, ignore_errors=True)
    traces = []
    skipped_ties = 0
    for it, ex, o, m in zip(items, exps, obs, metas):
        if o.get("ties"):
            for e in ex:
                e["check_editions"] = False
                # a second pattern with a different group structure matches the same characters:
                # which reading of the reporter wins is not fixed by the property
                e["groups"] = {k: v for k, v in e["groups"].items() if k == "page"}
            skipped_ties += 1
        traces.append({"text": [ord(c) for c in it["text"]], "exp": ex, "obs": o["obs"], "raised": o["raised"]})
    fails, _ = tlc_judge("Trace_Forms", "Trace_Forms.cfg", traces, ev, "forms", chunk=6000)
    for ix, cl in fails:
        if cl.startswith("C01"):
            vd.violation(cl, {"text": items[ix]["text"], "label": metas[ix]["label"], "shape": metas[ix]["shape"],
                              "expected": [{k: v for k, v in e.items() if k != "plaintiff_cp"} for e in exps[ix]],
                              "observed": [dict(o, plaintiff="".join(map(chr, o["plaintiff_cp"]))) for o in obs[ix]["obs"]]},
                         {"clause": cl, "form": metas[ix]["shape"]["form"], "label": metas[ix]["label"],
                          "mechanism": mechanism(cl, exps[ix], obs[ix]["obs"])},
                         judge=vlib.J("Trace_Forms", "Trace_Forms.cfg", traces[ix]),
                         rerun=vlib.R("drv_extract", "run_forms", items[ix], fields=["obs", "raised"]))
    ev.sample({"text": items[0]["text"], "expected": {k: v for k, v in exps[0][0].items() if k not in ("plaintiff_cp",)}})
    ev.cov["traces_validated_against_impl"] = len(traces)
    ev.cov["evaluations"] = len(traces)
    ev.cov["distinct_nontrivial"] = len({it["text"] for it in items})
    ev.cov["shapes"] = len(shapes)
    ev.cov["reporter_strings_minimal_forms"] = len(seen)
    ev.cov["journal_strings"] = njournal
    ev.cov["law_examples"] = nlaw
    ev.cov["journal_strings_shared_with_reporters_excluded"] = shared_strings
    ev.cov["court_strings"] = len(allcourts if thorough else allcourts[:: 4])
    ev.cov["edition_clause_skipped_second_pattern"] = skipped_ties
    ev.cov["reporter_strings_excluded_database_quirks"] = quirks
    ev.cov["rule"] = "every valid Forms.tla shape x concretisations; every plain-template reporter string of reporters-db in the two minimal forms"
    ev.assumptions = ["domain rules of Forms.tla (documented terminators, parenthetical after a year parenthetical, written antecedent for short forms)",
                      "for short / supra / id. forms the full span end is judged as: reaches the end of the span and at most the closing parenthesis (DESIGN C01 reading)",
                      "courts: citation strings of courts-db without parentheses or four-digit groups; the expected id is any court whose normalised string equals the written one"]
    ev.write(vd)
    return vd.exit_code()


if __name__ == "__main__":
    vlib.main_wrapper(sys.argv[1], lambda: main(sys.argv[1]))
