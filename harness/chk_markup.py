"""Check C19 (markup mode only adds well-founded reference citations): Markup.tla.
 (A) TLC model-checks Markup.tla: for every markup of <= 6 tokens (text, name, punctuation, <i>/<em>,
     other tags) the plain-text span the reference finder computes through the markup->plain offset
     translator is exactly where the name stands in the cleaned text, inside the text and inside
     its full span.
 (C) generated marked-up legal text (italic / emphasis around party names with and without trailing
     punctuation, paragraphs, entities, whitespace; party names that are ordinary words emphasised
     later in lower case; parallel citations) x step lists containing `html`: Trace_Markup.tla
     (TLC) judges non-reference citations identical to plain mode, reference offsets valid,
     reference after its full citation, its text containing a valid name of that citation.
"""
import itertools
import random
import sys

import vlib
from vlib import Evidence, MachineryError, Verdict, run_tlc, tlc_must_pass, tlc_judge

PARTIES = [("Foo", "Bar"), ("May", "Anderson"), ("Will", "Hallock"), ("Smithson", "Jonesby"), ("Roe", "Wade"),
           ("Nobelman", "American Savings Bank"), ("State", "Wingler"), ("Bell Atlantic Corp.", "Twombly"), ("Doe", "Doe"),
           ("Great Lakes Dredge", "Harbor Towing Company")]
CITES = ["1 U.S. 1", "345 U.S. 528, 73 S. Ct. 840, 97 L. Ed. 1221", "12 F.3d 345", "550 U.S. 544, 570", "25 N.J. 161"]
# step lists containing `html` -- also with another cleaner BEFORE it (the order is the caller's) and three steps
STEPS = [["html"], ["html", "all_whitespace"], ["html", "inline_whitespace"], ["all_whitespace", "html"],
         ["inline_whitespace", "html"], ["html", "underscores", "all_whitespace"]]


def nl(name):
    """a name wrapped across lines (the blanks between its words become line breaks with indentation)"""
    return name.replace(" ", "\n      ")


def documents(rnd, n):
    docs = []
    shapes = list(itertools.product(range(len(PARTIES)), range(len(CITES)), range(8), range(6)))
    rnd.shuffle(shapes)
    for (pi, ci, style, tail) in shapes[:n]:
        p, d = PARTIES[pi]
        tag = ["i", "em"][style % 2]
        o, c = f"<{tag}>", f"</{tag}>"
        year = 1950 + (pi * 7 + ci) % 60
        head = [f"{o}{p} v. {d}{c}, {CITES[ci]} ({year}).", f"{o}{p}{c} v. {o}{d},{c} {CITES[ci]} ({year}).",
                f"{p} v. {d}, {CITES[ci]} ({year})."][style % 3]
        short = d.split()[0]
        later = [f"In {o}{short}{c}, the court held that x.", f"The rule of {o}{short},{c} supra, at 5, applies.",
                 f"See {o}{short}.{c} Then {o} {p}{c} again; {o}{short} :{c} at 7.",
                 f"{short} at 12 says so, and {o}{short}{c} at 14 too.",
                 f"A court {o}{short.lower()}{c} decline, and it {o}{p.lower()},{c} too.",
                 f"Compare <b>{short}</b> with <span>{o}{short}{c}</span>&amp; others &lt;{p}&gt;.",
                 # the WHOLE (possibly multi-word) party names, wrapped across lines inside the emphasis, closely followed
                 # by other citations
                 f"In {o}{nl(d)}{c}, id. at 7, and {o}{nl(p)}{c} at 9, 2 F.2d 2 (1950).",
                 f"The rule of {o}{nl(d)},{c} supra, applies; see {o}{nl(p)}\n{c} too. Id."][style]
        filler = ["The court held that notice was due.", "Id. at 5.", f"2 F.2d 2 ({year + 1}).", f"See {o}Other v. Party{c}, 3 F. Supp. 2d 100 (2000).",
                  "Dun &amp; Bradstreet said &quot;no&quot;&nbsp;&mdash; twice.", "A &lt;b&gt; tag &amp; more &#167; 5."][tail]
        body = [f"<p>{head} {filler}</p>\n<p>{later}</p>", f"<div>{head}\n\n  {later} {filler}</div>",
                f"<p>{filler} {head} {later}</p>"][(tail + style) % 3]
        docs.append(body)
    return docs


def main(pid):
    thorough = vlib.tier() == "thorough"
    ev, vd = Evidence(pid), Verdict(pid)
    rnd = random.Random(vlib.seed())
    r = run_tlc("MC_Markup", "MC_Markup.cfg", timeout=900)
    tlc_must_pass(r, "MC_Markup")
    ev.add_tlc("MC_Markup", r, "MaxToks=6")
    docs = documents(rnd, 10000 if thorough else 1620)
    items = [{"markup": d, "steps": s} for d in docs for s in STEPS]
    obs = vlib.impl_map("drv_extract", "run_markup", items)
    fails, _ = tlc_judge("Trace_Markup", "Trace_Markup.cfg", obs, ev, "markup", chunk=4000)
    nref = sum(len(o["refs"]) for o in obs)
    for ix, cl in fails:
        if cl.startswith("C19"):
            o = obs[ix]
            diff = [x for x in o["markup_nonref"] if x not in o["plain_nonref"]][:2] + [x for x in o["plain_nonref"] if x not in o["markup_nonref"]][:2]
            vd.violation(cl, {"markup": o["markup"], "steps": o["steps"], "refs": o["refs"][:6], "nonref_difference": [d[:400] for d in diff]},
                         {"clause": cl, "steps": "+".join(o["steps"])},
                         judge=vlib.J("Trace_Markup", "Trace_Markup.cfg", o), rerun=vlib.R("drv_extract", "run_markup", items[ix]))
    ev.sample({"markup": obs[0]["markup"], "refs": [(r["mode"], r["text"]) for r in obs[0]["refs"]]})
    ev.cov["traces_validated_against_impl"] = len(obs)
    ev.cov["evaluations"] = len(obs)
    ev.cov["distinct_nontrivial"] = sum(1 for o in obs if o["refs"])
    ev.cov["reference_citations_judged"] = nref
    ev.cov["markup_only_references"] = sum(1 for o in obs for r in o["refs"] if r["mode"] == "markup")
    ev.cov["rule"] = "markup shapes: party pair x citation (incl. parallel) x 8 tag / punctuation styles (incl. whole multi-word names wrapped across lines) x 3 layouts, x 6 step lists (html first, last, in the middle); non-trivial = at least one reference citation found"
    ev.assumptions = ["name validity is judged by a transcription of the rule in the harness (disallowed names read from eyecite.utils)",
                      "TLC, Json community module"]
    ev.write(vd)
    return vd.exit_code()


if __name__ == "__main__":
    vlib.main_wrapper(sys.argv[1], lambda: main(sys.argv[1]))
