"""Check C12 (token stream partitions the text): Tokenize.tla.

 (A) TLC model-checks Tokenize.tla: every space skeleton x every candidate sequence
     (<= MaxCands matches over N positions, kinds nominative / citation / other,
     mergeable or not) -> Partition, TextPieces, SelfIndex, Increasing, IndexExact,
     machine = functional definition, order independence when ties merge.
 (B) TLC emits every terminal configuration; each becomes a real Tokenizer with one-off
     extractors, so the real loop takes the model's transitions on a toy text.
 (C) Trace_Tokenize.tla (TLC) judges the recorded token streams of (B) and of
     citation-dense documents run through the three shipped tokenizers.
"""
import json
import os
import random
import re
import sys
import time

import gendocs
import vlib
from vlib import Evidence, MachineryError, Verdict, run_tlc, tlc_must_pass

MY = {"C12": {"C12.concat", "C12.selfindex", "C12.order", "C12.index"}}


def judge(traces, ev, label, chunk=50000):
    fails, drifts = [], []
    for b in range(0, len(traces), chunk):
        part = traces[b:b + chunk]
        tf = vlib.WORK / f"trace-{os.getpid()}-{time.time_ns()}.json"
        tf.write_text(json.dumps(part))
        try:
            r = run_tlc("Trace_Tokenize", "Trace_Tokenize.cfg", env={"TRACE_FILE": str(tf)}, timeout=1500)
        finally:
            tf.unlink(missing_ok=True)
        tlc_must_pass(r, f"Trace_Tokenize {label}")
        done = 0
        for line in r.out.splitlines():
            if line.startswith('<<"FAIL"'):
                m = re.match(r'^<<"FAIL", (\d+), "([\w.]+)">>$', line)
                fails.append((b + int(m.group(1)) - 1, m.group(2)))
            elif line.startswith('<<"DRIFT"'):
                drifts.append(b + int(re.match(r'^<<"DRIFT", (\d+)>>$', line).group(1)) - 1)
            elif line.startswith('<<"DONE"'):
                done += 1
        if done != len(part):
            raise MachineryError(f"Trace_Tokenize {label}: {done} of {len(part)} traces judged")
        ev.add_tlc(f"Trace_Tokenize[{label}#{b // chunk}]", r, f"{len(part)} recorded traces")
        ev.add_hits(r.out)
    return fails, drifts


def shape(text):
    """mechanism signature of a document: lexeme classes, not the verdict"""
    return re.sub(r"[A-Za-z]+", "w", re.sub(r"\d+", "9", text))[:60]


def main(pid):
    thorough = vlib.tier() == "thorough"
    ev, vd = Evidence(pid), Verdict(pid)
    mine = MY[pid]
    rnd = random.Random(vlib.seed())
    total = 0

    # (A)
    cfg = "MC_Tokenize_thorough.cfg" if thorough else "MC_Tokenize_quick.cfg"
    r = run_tlc("MC_Tokenize", cfg, timeout=1700)
    tlc_must_pass(r, cfg)
    ev.add_tlc(cfg, r, "N=6 MaxCands=3 all space skeletons" if thorough else "N=5 MaxCands=3 5 space skeletons")

    # (B) emit + replay
    r = run_tlc("MC_Tokenize", "MC_Tokenize_emit.cfg", timeout=900)
    tlc_must_pass(r, "MC_Tokenize_emit")
    ev.add_tlc("MC_Tokenize_emit", r, "N=4 MaxCands=3 4 space skeletons")
    cfgs = []
    for line in r.out.splitlines():
        if line.startswith('<<"R", '):
            c = json.loads(json.loads(line[7:-2]))
            c["N"] = 4
            cfgs.append(c)
    del r
    if not cfgs:
        raise MachineryError("no configurations emitted")
    if not thorough and len(cfgs) > 60000:
        overl = [c for c in cfgs if len(c["cands"]) >= 2 and any(
            a is not b and a["s"] < b["e"] and b["s"] < a["e"] for a in c["cands"] for b in c["cands"])]
        rnd.shuffle(overl)
        rest = [c for c in cfgs if len(c["cands"]) < 2]
        cfgs = rest + overl[:60000 - len(rest)]
    obs = vlib.impl_map("drv_tokenize", "run_toy", cfgs)
    traces = []
    for c, o in zip(cfgs, obs):
        o.update({"sp": c["sp"], "cands": c["cands"], "N": c["N"]})
        traces.append(o)
    fails, drifts = judge(traces, ev, "toy")
    total += len(traces)
    for ix, cl in fails:
        if cl in mine:
            c = cfgs[ix]
            vd.violation(cl, {"kind": "toy", "config": c, "observed": obs[ix]},
                         {"clause": cl, "kinds": "-".join(x["kind"] for x in c["cands"])},
                         judge=vlib.J("Trace_Tokenize", "Trace_Tokenize.cfg", traces[ix]))
    for ix in drifts:
        vd.spec_drift("Tokenize", f"toy config {cfgs[ix]['cands']} sp={cfgs[ix]['sp']}")
    ev.sample({"toy_config": cfgs[len(cfgs) // 2], "words": [(w["cs"], w["ce"], w["special"]) for w in obs[len(cfgs) // 2]["words"]]})
    # the model's expectation (emitted) must be what conformance recomputed: cross-check
    for c, o in zip(cfgs, obs):
        if not o["raised"]:
            got = [[w["cs"], w["ce"], w["special"]] for w in o["words"]]
            exp = [[w["s"], w["e"], w["special"]] for w in c["words"]]
            if got != exp and traces.index(o) not in drifts:
                raise MachineryError("emitted expectation differs from observation but no DRIFT")
            break

    # (C) documents through the shipped tokenizers
    docs = list(gendocs.pairs())
    extra = list(gendocs.random_docs(vlib.seed(), 6000 if thorough else 1500, hostile=True))
    if not thorough:
        rnd.shuffle(docs)
        docs = docs[:4000]
    docs += extra
    docs = [d for d in docs if d.strip() and "\ud800" not in d]
    hs_dir = vlib.WORK / f"hs-{os.getpid()}-{time.time_ns()}"
    hs_dir.mkdir(parents=True)
    vlib.impl_run("drv_tokenize", "run_docs", {"items": [{"text": "1 U.S. 1", "tok": "hs"}]},
                  env={"VERIF_HS_CACHE": str(hs_dir)})     # compile the database once
    items = [{"text": d, "tok": "aho"} for d in docs] + [{"text": d, "tok": "hs"} for d in docs]
    ref = docs[:: (3 if thorough else 12)]
    items += [{"text": d, "tok": "ref"} for d in ref]
    # history: the judged tokenize() call is the tokenizer instance's SECOND look at that text, after the tokens of the
    # first were used to build citations
    items += [{"text": d, "tok": t, "again": True} for t in ("aho", "hs") for d in docs[:: (4 if thorough else 10)]]
    rnd.shuffle(items)
    obs = vlib.impl_map("drv_tokenize", "run_docs", items, env={"VERIF_HS_CACHE": str(hs_dir)})
    import shutil
    shutil.rmtree(hs_dir, ignore_errors=True)
    for o in obs:
        o["N"] = len(o["text"])
    fails, drifts = judge(obs, ev, "docs", chunk=8000)
    total += len(obs)
    raised = sum(1 for o in obs if o["raised"])
    for ix, cl in fails:
        if cl in mine:
            it = items[ix]
            vd.violation(cl, {"kind": "document", "text": it["text"], "tokenizer": it["tok"],
                              "words": ["".join(map(chr, w["t"])) for w in obs[ix]["words"]]},
                         {"clause": cl, "tokenizer": it["tok"], "shape": shape(it["text"])},
                         judge=vlib.J("Trace_Tokenize", "Trace_Tokenize.cfg", obs[ix]),
                         rerun=vlib.R("drv_tokenize", "run_docs", it, hs_cache=True, fields=[k for k in obs[ix] if k != "N"]))
    for ix in drifts:
        vd.spec_drift("Tokenize", f"document {items[ix]['text'][:80]!r} tokenizer={items[ix]['tok']}")
    ev.sample({"document": items[0]["text"], "tokenizer": items[0]["tok"],
               "words": ["".join(map(chr, w["t"])) for w in obs[0]["words"]]})
    ev.cov["second_look_items"] = sum(1 for it in items if it.get("again"))
    ev.cov["traces_validated_against_impl"] = total
    ev.cov["evaluations"] = total
    ev.cov["distinct_nontrivial"] = len(traces) + len(set(docs))
    ev.cov["rule"] = ("toy: every terminal configuration of MC_Tokenize_emit (distinct by construction); documents: every "
                      "ordered pair of citation fragments x separators (quick: seeded subset) + seeded hostile documents, "
                      "each through Aho-Corasick and Hyperscan, a subsample through the reference tokenizer")
    ev.cov["documents"] = len(docs)
    ev.cov["calls_that_raised_not_judged_here"] = raised
    ev.cov["exhaustive"] = thorough
    ev.assumptions = ["one-off extractors reproduce abstract candidates exactly (harness/drv_tokenize.py)",
                      "calls that raise are judged by C04, not here", "TLC, Json community module"]
    ev.write(vd)
    return vd.exit_code()


if __name__ == "__main__":
    pid = sys.argv[1]
    vlib.main_wrapper(pid, lambda: main(pid))
