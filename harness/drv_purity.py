"""Driver for C15 (runs in a fresh interpreter per PYTHONHASHSEED; eyecite from /repo).
Serialises get_citations results to compare them across calls, threads, histories and processes."""
import hashlib
import json
import queue
import sys
import threading


def ser(cites):
    from eyecite.models import CaseCitation, IdCitation, ResourceCitation, UnknownCitation
    out = []
    for c in cites:
        d = {"cls": type(c).__name__, "span": c.span(), "full": c.full_span(), "pin": c.span_with_pincite(),
             "text": c.matched_text(), "groups": sorted((k, str(v)) for k, v in c.groups.items()),
             "meta": sorted((k, str(v)) for k, v in c.metadata.__dict__.items())}
        if isinstance(c, ResourceCitation):
            d["year"] = c.year
            # candidate editions in the ORDER of the attribute (a tuple): part of the result (C15)
            d["exact"] = [f"{e.reporter.short_name}/{e.short_name}/{e.start}" for e in c.exact_editions]
            d["var"] = [f"{e.reporter.short_name}/{e.short_name}/{e.start}" for e in c.variation_editions]
            g = c.edition_guess
            d["guess"] = f"{g.reporter.short_name}/{g.short_name}" if g else None
        value_hash = not isinstance(c, (IdCitation, UnknownCitation)) and not (
            isinstance(c, CaseCitation) and c.groups.get("page") is None)
        if value_hash:
            d["hash"] = hash(c)
        out.append(d)
    return json.dumps(out, sort_keys=True, default=str)


def dig(s):
    return hashlib.sha1(s.encode("utf8", "surrogatepass")).hexdigest()[:16]


# option sets (C15 "every text and option set"): 0 plain, 1 remove_ambiguous, 2 plain text with cleaning steps,
# 3 markup mode, 4 markup mode with a step list that lacks "html" (raises; the call must still leave its
# arguments alone).  The step lists are SHARED between calls, as a caller's configuration object is.
PRISTINE = {2: ["all_whitespace"], 3: ["html", "inline_whitespace"], 4: ["inline_whitespace"]}
SHARED = {k: list(v) for k, v in PRISTINE.items()}
NOPTS = 6       # 5: tokenizer=HyperscanTokenizer -- one instance PER THREAD, reused by all calls of that thread (the property
                # promises thread-safety for the shared DEFAULT tokenizer only; a Hyperscan scratch space is single-threaded)
_HS = threading.local()


def hs_tok():
    if not hasattr(_HS, "t"):
        import os
        import tempfile
        from eyecite.tokenizers import HyperscanTokenizer
        _HS.t = HyperscanTokenizer(cache_dir=os.environ.get("VERIF_HS_CACHE") or tempfile.mkdtemp(prefix="hs"))
    return _HS.t


def other_job(k, text):
    """what ANOTHER user of the library may do in the same process between two calls (stuttering steps of Purity.tla:
    they touch none of its variables): build a tokenizer over a filtered / reordered / partial extractor list -- the
    extractor objects are the module-level ones the default tokenizer shares -- and tokenize with it"""
    from eyecite.tokenizers import EXTRACTORS, AhocorasickTokenizer, Tokenizer
    if k % 3 == 0:
        tk = AhocorasickTokenizer([e for e in EXTRACTORS if not e.extra.get("short")])
    elif k % 3 == 1:
        tk = AhocorasickTokenizer(list(reversed(EXTRACTORS)))
    else:
        tk = Tokenizer(extractors=EXTRACTORS[-5:] + EXTRACTORS[:200:7])
    try:
        tk.tokenize(text)
    except Exception:  # noqa: BLE001 - judged elsewhere (C04)
        pass


def inputs_intact():
    return all(SHARED[k] == PRISTINE[k] for k in PRISTINE)


def call(text, opt):
    from eyecite import get_citations
    try:
        if opt in (0, 1):
            r = get_citations(text, remove_ambiguous=bool(opt))
        elif opt == 5:
            r = get_citations(text, tokenizer=hs_tok())
        elif opt == 2:
            r = get_citations(text, clean_steps=SHARED[2])
        else:
            r = get_citations(markup_text=text, clean_steps=SHARED[opt])
        return r, ser(r)
    except Exception as ex:  # noqa: BLE001
        return None, f"RAISED {type(ex).__name__}: {ex}"[:200]


def baseline(payload):
    """one call per (text, option) in a single-threaded fresh process, each with fresh argument objects"""
    out = []
    for t in payload["texts"]:
        row = []
        for opt in range(NOPTS):
            for k in PRISTINE:
                SHARED[k] = list(PRISTINE[k])
            row.append(call(t, opt)[1])
        out.append(row)
    return out


class Worker(threading.Thread):
    def __init__(self):
        super().__init__(daemon=True)
        self.q, self.done = queue.Queue(), queue.Queue()

    def run(self):
        while True:
            job = self.q.get()
            if job is None:
                return
            self.done.put(call(*job))


def run_histories(payload):
    """payload: texts (corpus), items: [{hist: [[ev, th, T]...], bind: {A: i, B: j, C: k}, opt}]"""
    sys.setswitchinterval(1e-6)
    texts = payload["common"]["texts"]
    keep_full = payload["common"].get("full", False)
    workers = {"t1": Worker(), "t2": Worker()}
    for w in workers.values():
        w.start()
    res = []
    for it in payload["items"]:
        calls, open_call = [], {}
        for ev, th, T in it["hist"]:
            ti = it["bind"][T]
            if ev == "call":
                if it.get("other"):
                    other_job(ti + len(calls), texts[ti])
                before = texts[ti]
                workers[th].q.put((texts[ti], it["opt"]))
                open_call[th] = {"text": ti, "opt": it["opt"], "th": th, "same_input": True, "_before": before}
            else:
                obj, s = workers[th].done.get()
                c = open_call.pop(th)
                c["same_input"] = texts[c["text"]] == c.pop("_before") and inputs_intact()
                c["d"] = dig(s)
                c["_obj"], c["_s"] = obj, s
                calls.append(c)
        for c in calls:                      # earlier results must not have been modified by later calls
            obj = c.pop("_obj")
            s = c.pop("_s")
            c["dend"] = dig(ser(obj)) if obj is not None else c["d"]
            if keep_full:
                c["full"] = s
        res.append(calls)
    for w in workers.values():
        w.q.put(None)
    return res


def find_ties(payload):
    """texts on which two candidates of the reference tokenizer cover the same span without merging"""
    from eyecite.tokenizers import Tokenizer
    tk = Tokenizer()
    out = []
    for t in payload["items"]:
        try:
            toks = list(tk.extract_tokens(t))
        except Exception:  # noqa: BLE001
            out.append(False)
            continue
        by = {}
        for x in toks:
            by.setdefault((x.start, x.end), []).append(x)
        tie = False
        for group in by.values():
            for a in group[1:]:
                if not (type(a) is type(group[0]) and a.groups == group[0].groups
                        and getattr(a, "short", None) == getattr(group[0], "short", None)):
                    tie = True
        out.append(tie)
    return out
