"""Citation-dense document generator (stdlib only, deterministic).

Documents are glued from fragments of the citation language and separators.
The seed-independent core is exhaustive over *placements*: every ordered pair
of fragments with every separator; the seeded part adds longer documents.
`hostile=True` adds fragments outside the documented language (C04, C02, C12).
"""
import itertools
import random

NOMINATIVE = ["Thompson", "Cooke", "Holmes", "Olcott", "Chase", "Gilmer", "Bee", "Deady", "Taney"]

FRAGMENTS = [
    # full case citations
    "Foo v. Bar, 1 U.S. 1 (1999)",
    "Bell Atlantic Corp. v. Twombly, 550 U.S. 544, 570 (2007)",
    "Shapiro v. Thompson, 394 U. S. 618",
    "In re Cooke, 93 Wn. App. 526",
    "Holmes v. Chase, 12 F.3d 345, 347-48 (2d Cir. 1993) (holding that x)",
    "Taney v. Bee, 5 F. Supp. 2d 100, 101 n. 3 (S.D.N.Y. 1998)",
    "Roe v. Wade, 410 U.S. 113, 93 S. Ct. 705, 35 L. Ed. 2d 147 (1973)",
    "Smith v. Jones (1990) 50 Cal.3d 100",
    "1 U.S. 1",
    "2 F.2d 2 (2005)",
    "Carpenter v. United States, 585 U.S. ___ (2018)",
    "Ex parte Deady, 3 F. 300 (1880)",
    "Gilmer v. Olcott, 4 Johns. 5 (N.Y. 1809)",
    # short forms
    "550 U.S. at 556",
    "Twombly, 550 U.S., at 556",
    "Bar, 1 U.S., at 5 (quoting y)",
    "127 S.Ct. 1955",
    "Nobelman at 332, 113 S.Ct. 2106",
    # supra / id
    "Twombly, supra, at 10",
    "Bar, supra",
    "Foo, 123 supra, at 6",
    "Id. at 5",
    "Id., at 6-7",
    "Ibid.",
    "id. §5",
    "Id. at 5, §3",
    # laws / journals / sections
    "42 U.S.C. § 1983",
    "Mass. Gen. Laws ch. 1, § 2 (West 1999)",
    "18 U.S.C. §§ 4241-4243",
    "1 Minn. L. Rev. 1, 5 (1916)",
    "100 Harv. L. Rev. 1 (1986) (arguing z)",
    "§ 5",
    "§§5-6",
    # stop words and prose
    "see also",
    "citing",
    "cert. denied",
    "aff'd",
    "The court held that",
    "and Thompson at 12",
    "Bar at 7",
    "supra note 12, at 45",
    "(1999)",
    "(2d Cir. 2001)",
    "at 44",
    "Chase Manhattan",
    # statute sections with subsections; whitespace variants; long case names; a nameless later citation
    "42 U.S.C. § 405(r)(2)",
    "Ala. Code § 12(a)",
    "550 U.S. 544 , at 554-555",
    "1 U.S. 1, 5 (1999) (  holding that x is y)",
    "2 F.3d 2 (2d Cir. 1993) ( en banc )",
    "Smith v. Board of County Commissioners of the County of Santa Fe and Others, 410 U.S. 113, 93 S. Ct. 705, 35 L. Ed. 2d 147 (1973)",
    "Roe v. Wade, 410 U.S. 113. The same court, in a later and entirely unrelated appeal that raised quite different questions of law and of fact, said so again, 500 F.2d 100 (5th Cir. 1974)",
    "Smith v. Smith, 410 U.S. 113 (1973)",
    "Smith at 121",
    "3 Rob. 5",
    "1 Wash. 1 (1870)",
    "1 H. 2",
    # more than MAX_MATCH_CHARS (300) of uninterrupted plain prose (no stop word, citation, section sign or line
    # break): whatever follows it has its backward window cut
    ("The parties briefed the question at length and the trial court took the matter under advisement for several "
     "months before it ruled that the statute applied to the transaction and that the claim was timely because the "
     "limitation period had been tolled while the earlier action was pending before another tribunal which later "
     "declined to hear it on the merits as was explained in"),
    # placeholder pages in short forms (slip opinions)
    "585 U. S., at ___ (slip op., at 9)",
    "Carpenter v. United States, 585 U.S. _ (2018)",
    "Id., at ___",
]

LONG_PROSE = next(f for f in FRAGMENTS if f.startswith("The parties briefed"))
ANTECEDENT_STYLE = ["Nobelman at 332, 113 S.Ct. 2106", "Twombly, supra, at 10", "Bar, supra", "Foo, 123 supra, at 6",
                    "Twombly, 550 U.S., at 556", "Bar, 1 U.S., at 5 (quoting y)", "Johnson, 515 U. S. 304 (1995)"]

HOSTILE = [
    "1 U.S. 1",
    "42 U.S.C. § 1983",
    "“1 U.S. 1”",
    "é1 U.S. 1",
    "1 U.S. 1—which",
    "§1983—which",
    "§1 U.S. 1",
    "supra,§,",
    "1 CCH Unemployment Ins. Rep. 1",
    "\x00",
    ")",
    "(",
    "]",
    "[",
    "99999999999999999999999999999999999999999 U.S. 1",
    "1 U.S. 99999999999999999999999999999999999999999",
    "١ U.S. ٢",
    "word§word",
    "Foo\tv. Bar, 1 U.S. 1",
    "Foo\nv. Bar, 1 U.S. 1",
    "1 U.S. 1 (2100)",
    "(2100) 1 U.S. 1",
    "1 U.S. 1 ()",
    "1 U.S. 1 (1999) (2000)",
    "1 U.S. 1 (1998-99 term)",
    "Id. at ¶ 10",
    "Id.  at 5",
    "ibid.,",
    "1 Minn. L. Rev. ___",
    "ſupra",
    "1 T.C. at 7",
    "25 Fla. L. Weekly S777 (Fla. 2000)",
    "3 Tenn. (Cooke) 45 (1812)",
    "v.",
    "In re",
    ";",
    "'",
    '"',
    "\\",
    "\ud800",
    # placeholder pages in every position a page can stand
    "1 U.S., at ___",
    "2 F.3d, at _",
    "1 U.S. at ___",
    "Bar, supra, at ___",
    "1 U.S. ___, ___ (1999)",
    "___ U.S. ___",
    "1 Minn. L. Rev. ___, at ___",
    # digit runs longer than int() converts (sys.get_int_max_str_digits() = 4300 since Python 3.11)
    "1 U.S. " + "1" * 5000,
    "7" * 5000 + " U.S. 1",
    "Id. at " + "3" * 5000,
    "1 U.S. 1 (" + "2" * 5000 + ")",
    "§ " + "4" * 5000,
    "1 Minn. L. Rev. " + "5" * 5000,
    "1 T.C. at " + "7" * 5000,
    "Foo, 1 U.S., at " + "7" * 400,
]

SEPARATORS = [" ", ", ", "; ", ". ", " and ", "\n", "  ", ""]


def pairs(frags=None, seps=None):
    frags = frags or FRAGMENTS
    seps = seps or SEPARATORS[:6]
    for a, b in itertools.product(frags, repeat=2):
        for s in seps:
            yield a + s + b


_CORPUS = None


def corpus():
    """real text: every string literal of the repository's own tests that looks like a citation sentence, and the
    sample opinion tests/assets/opinion.txt cut into paragraphs and pairs of consecutive paragraphs (read from the
    tree under test; empty when the tree has no tests directory).  Deterministic."""
    global _CORPUS
    if _CORPUS is None:
        import ast
        import glob
        import os
        root = os.path.join(os.environ.get("EYECITE_REPO", "/repo"), "tests")
        out = []
        for f in sorted(glob.glob(os.path.join(root, "test_*.py"))):
            try:
                tree = ast.parse(open(f, encoding="utf-8").read())
            except (OSError, SyntaxError):
                continue
            for node in ast.walk(tree):
                if (isinstance(node, ast.Constant) and isinstance(node.value, str) and 8 <= len(node.value) <= 2000
                        and " " in node.value and any(c.isdigit() for c in node.value)):
                    out.append(node.value)
        try:
            op = open(os.path.join(root, "assets", "opinion.txt"), encoding="utf-8").read()
        except OSError:
            op = ""
        paras = [p for p in op.split("\n\n") if p.strip()]
        out += paras
        out += [a + "\n\n" + b for a, b in zip(paras, paras[1:])][::2]
        _CORPUS = sorted(dict.fromkeys(out))
    return list(_CORPUS)


def random_docs(seed, n, kmin=3, kmax=7, hostile=False, seps=None, with_corpus=True):
    """seeded documents glued from fragments; followed (once per call) by the real-text corpus"""
    rnd = random.Random(seed)
    pool = FRAGMENTS + (HOSTILE if hostile else [])
    seps = seps or (SEPARATORS if hostile else SEPARATORS[:7])
    for _ in range(n):
        k = rnd.randint(kmin, kmax)
        parts = []
        for j in range(k):
            parts.append(rnd.choice(pool))
            if j < k - 1:
                parts.append(rnd.choice(seps))
        yield "".join(parts)
    if with_corpus:
        yield from corpus()


def mutate(text, rnd, n=1):
    """character-level mutations: delete / duplicate / swap / insert punctuation"""
    chars = list(text)
    for _ in range(n):
        if not chars:
            break
        i = rnd.randrange(len(chars))
        op = rnd.randrange(4)
        if op == 0:
            del chars[i]
        elif op == 1:
            chars.insert(i, chars[i])
        elif op == 2 and i + 1 < len(chars):
            chars[i], chars[i + 1] = chars[i + 1], chars[i]
        else:
            chars.insert(i, rnd.choice(" ,.;()[]§\n\t “"))
    return "".join(chars)


def to_markup(doc, rnd):
    """mark up a plain document: <p> blocks, <i>/<em> around capitalised words, entities"""
    words = doc.split(" ")
    out = []
    for w in words:
        if w[:1].isupper() and rnd.random() < 0.35 and "<" not in w:
            tag = rnd.choice(["i", "em"])
            out.append(f"<{tag}>{w}</{tag}>")
        else:
            out.append(w.replace("&", "&amp;").replace("<", "&lt;"))
    return "<p>" + " ".join(out) + "</p>"


NAMED = [
    ("Foo v. Bar, 1 U.S. 1 (1999)", ["Bar", "Foo"]),
    ("Bell Atlantic Corp. v. Twombly, 550 U.S. 544, 570 (2007)", ["Twombly"]),
    ("Shapiro v. Thompson, 394 U. S. 618", ["Thompson", "Shapiro"]),
    ("Holmes v. Chase, 12 F.3d 345, 347-48 (2d Cir. 1993) (holding that x)", ["Holmes", "Chase"]),
    ("Roe v. Wade, 410 U.S. 113, 93 S. Ct. 705, 35 L. Ed. 2d 147 (1973)", ["Wade", "Roe"]),
    ("Smith v. Jones (1990) 50 Cal.3d 100", ["Jones", "Smith"]),
    ("Gilmer v. Olcott, 4 Johns. 5 (N.Y. 1809)", ["Gilmer", "Olcott"]),
    ("State v. Wingler, 25 N.J. 161 (1957)", ["Wingler"]),
]
REF_FORMS = ["{n} at 12", "See {n} at 15.", "In {n}, the court held so", "{n}, 410 U.S., at 120", "{n} at 127 S.Ct. 1955",
             "State v. {n} at 175", "({n} at 3)", "{n} at 9, 2 F.2d 2 (2005)", "{n}, supra, at 4", "Id. at 5; {n} at 6"]


def reference_docs():
    """documents in which later text refers to an earlier full case citation by a party name: every named
    fragment x every reference form (own name), and pairs of named fragments with crossed references"""
    out = []
    for frag, names in NAMED:
        for n in names:
            for f in REF_FORMS:
                out.append(f"{frag}. {f.format(n=n)}.")
    for (fa, na), (fb, nb) in itertools.permutations(NAMED, 2):
        for f1, f2 in (("{n} at 12", "{n} at 127 S.Ct. 1955"), ("See {n} at 15.", "{n}, 410 U.S., at 120"), ("State v. {n} at 175", "{n} at 9, 2 F.2d 2 (2005)")):
            out.append(f"{fa}. {f1.format(n=na[0])}; {fb}. {f2.format(n=nb[0])} and {f1.format(n=na[-1])}, {f2.format(n=nb[-1])}.")
    return out


def ambiguous_docs(db, today):
    """documents around reporter strings that name several editions (read from reporters-db by the driver: db_strings):
    an undated citation of such a string directly after / before a dated citation of something else whose year would
    decide between the candidates, and the same with the string's own deciding year"""
    out = []
    for st in db["strings"]:
        eds = list(st["editions"]) + list(st.get("others", []))
        if len(eds) < 2:
            continue
        rng = {e: ((db["years"][e][0] or 1600), (db["years"][e][1] or today)) for e in eds}
        for e in eds:
            y = next((y for y in (rng[e][0], rng[e][1], (rng[e][0] + rng[e][1]) // 2)
                      if 1600 <= y <= today and all(not (rng[o][0] <= y <= rng[o][1]) for o in eds if o != e)), None)
            if y is None:
                continue
            S = st["string"]
            out.append(f"See Kappa v. Lomax, 2 U.S. 5 ({y}); Mirren v. Noxon, 1 {S} 1, 4.")
            out.append(f"Mirren v. Noxon, 1 {S} 1, 4; Kappa v. Lomax, 2 U.S. 5 ({y}). 1 {S} 1 ({y}).")
            break
    return out
