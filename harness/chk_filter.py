"""Check C03 (document order, unique, non-overlapping; merge idempotent): Filter.tla.
 (A) TLC model-checks Filter.tla (exact transcription of filter_citations) over every citation list
     extraction can produce within bounds (<= 3 non-reference citations with disjoint increasing
     spans and arbitrary enclosing full spans, <= 2 reference citations derived from a full case
     citation, inserted before it or appended): Sorted, Disjoint, NonRefsKept, Idempotent.
 (B) every list of the emit instance is rebuilt from real citation objects and pushed through the
     real filter_citations once and twice.
 (C) Trace_Filter.tla (TLC) judges those results and the results of get_citations on
     citation-dense generated documents, including both merge histories (party-name references,
     resolved-name references) filtered once and twice; conformance model = code on all of them.
"""
import json
import random
import sys

import gendocs
import vlib
from vlib import Evidence, MachineryError, Verdict, run_tlc, tlc_must_pass, tlc_judge

C03_DOCS = [
    "Bell Atlantic Corp. v. Twombly, 550 U.S. at 556, 127 S.Ct. 1955",
    "Foo v. Cooke, 1 U.S. 1 (1999). See Cooke at 12.",
    "Foo v. Bar, 1 U.S. 1 (1999). Roe v. Wade, 550 U.S. at 556, Bar at 127 S.Ct. 1955 (2007).",
    "Foo v. Bar, 1 U.S. 1 (1800). Id. at 5, 93 S. Ct. 705.",
    "Foo v. Bar, 1 U.S. 1, 2 S. Ct. 2, 3 L. Ed. 3 (1999); Bar at 7; see Bar at 9, 4 F.2d 4.",
    "State v. Wingler, 25 N.J. 161 (1957) (citing Wingler at 175). State v. Wingler at 175 and Wingler at 180.",
]


def main(pid):
    thorough = vlib.tier() == "thorough"
    ev, vd = Evidence(pid), Verdict(pid)
    rnd = random.Random(vlib.seed())
    r = run_tlc("MC_Filter", "MC_Filter_thorough.cfg" if thorough else "MC_Filter_quick.cfg", timeout=3000)
    tlc_must_pass(r, "MC_Filter")
    ev.add_tlc("MC_Filter", r, "P=5 MaxNon=3 MaxRef=1" if thorough else "P=4 MaxNon=3 MaxRef=2")
    r = run_tlc("MC_Filter", "MC_Filter_emit.cfg", timeout=900)
    tlc_must_pass(r, "MC_Filter_emit")
    ev.add_tlc("MC_Filter_emit", r, "P=4 MaxNon=2 MaxRef=2")
    lists = [json.loads(json.loads(line[7:-2])) for line in r.out.splitlines() if line.startswith('<<"L", ')]
    del r
    if not lists:
        raise MachineryError("no lists emitted")
    # deeper lists (>= 3 non-reference and >= 2 reference citations over 7 positions) by random walks
    # of the same specification: tlc -simulate
    r = run_tlc("MC_Filter", "MC_Filter_sim.cfg", timeout=1500, simulate="num=%d" % (3000 if thorough else 500), depth=7,
                extra=["-seed", str(vlib.seed() + 7)], workers=4)
    deep = {line for line in r.out.splitlines() if line.startswith('<<"L", ')}
    ev.cov["tlc_runs"].append({"name": "MC_Filter_sim (tlc -simulate)", "deep_lists": len(deep), "constants": "P=6 MaxNon=4 MaxRef=3 depth 7"})
    del r
    # every deep layout (3 non-reference + 2 reference citations) of the unit-span instance: exhaustive, small
    r = run_tlc("MC_Filter", "MC_Filter_unit.cfg", timeout=900)
    tlc_must_pass(r, "MC_Filter_unit")
    ev.add_tlc("MC_Filter_unit", r, "P=4 MaxNon=3 MaxRef=2, unit non-reference spans, full spans {s, s-1, 0} x {e, P}")
    unit = {line for line in r.out.splitlines() if line.startswith('<<"L", ')}
    ev.cov["unit_instance_deep_lists"] = len(unit)
    deep |= unit
    del r
    lists += [json.loads(json.loads(line[7:-2])) for line in sorted(deep)]
    obs = vlib.impl_map("drv_extract", "run_filter_lists", [x["l"] for x in lists])
    traces = [{"kind": "list", "l": x["l"], "once": o["once"], "twice": o["twice"], "raised": o["raised"]}
              for x, o in zip(lists, obs)]
    fails, drifts = tlc_judge("Trace_Filter", "Trace_Filter.cfg", traces, ev, "lists", chunk=50000)
    total = len(traces)
    for ix, cl in fails:
        if cl.startswith("C03"):
            vd.violation(cl, {"kind": "list", **traces[ix]}, {"clause": cl, "kinds": "-".join(c["kind"] for c in traces[ix]["l"])},
                         judge=vlib.J("Trace_Filter", "Trace_Filter.cfg", traces[ix]),
                         rerun=vlib.R("drv_extract", "run_filter_lists", traces[ix]["l"], fields=["once", "twice", "raised"]))
    for ix, _ in drifts:
        vd.spec_drift("Filter", f"list {traces[ix]['l']} real={traces[ix]['once']}")
    ev.sample({"list": traces[len(traces) // 2]["l"], "kept_ids": traces[len(traces) // 2]["once"]})
    # documents
    docs = list(gendocs.pairs())
    if not thorough:
        rnd.shuffle(docs)
        docs = docs[:5000]
    docs = C03_DOCS + gendocs.reference_docs() + docs + list(gendocs.random_docs(vlib.seed(), 8000 if thorough else 2500, kmin=3, kmax=8))
    docs = [d for d in dict.fromkeys(docs) if d.strip()]
    ditems = [{"text": d, "tok": "aho"} for d in docs]
    # configurations: remove_ambiguous=True, and markup mode (emphasised, also multi-word line-wrapped party names; step
    # lists with `html` first, last or in the middle): the guarantees are about every returned list
    import chk_markup
    ditems += [{"text": d, "tok": "aho", "ra": True} for d in docs[:: (4 if thorough else 10)]]
    for i, m in enumerate(chk_markup.documents(rnd, 1500 if thorough else 400)):
        ditems.append({"markup": m, "steps": chk_markup.STEPS[i % len(chk_markup.STEPS)], "tok": "aho"})
    docs = [it.get("text", it.get("markup")) for it in ditems]
    dobs = vlib.impl_map("drv_extract", "run_docs", ditems, common={"merge": True})
    for o in dobs:
        o["kind"] = "doc"
        for c in o["cites"]:
            for k in ("groups", "meta", "mt", "gnone", "mnone", "exact", "var"):
                c.pop(k, None)
        for m in o["merges"]:
            for c in m["ext"] + m["once"]:
                for k in ("groups", "meta", "mt", "gnone", "mnone", "exact", "var"):
                    c.pop(k, None)
        o.pop("text", None)
    fails, drifts = tlc_judge("Trace_Filter", "Trace_Filter.cfg", dobs, ev, "docs", chunk=4000)
    total += len(dobs)
    for ix, cl in fails:
        if cl.startswith("C03"):
            o = dobs[ix]
            vd.violation(cl, {"kind": "document", "text": docs[ix],
                              "cites": [(c["cls"], c["s"], c["e"], c["fs"], c["fe"]) for c in o["cites"]],
                              "merges": [[(c["cls"], c["s"], c["e"]) for c in m["once"]] for m in o["merges"]]},
                         {"clause": cl, "classes": "-".join(c["cls"][:5] for c in o["cites"])[:80]},
                         judge=vlib.J("Trace_Filter", "Trace_Filter.cfg", o),
                         rerun=vlib.R("drv_extract", "run_docs", ditems[ix], common={"merge": True},
                                      fields=["cites", "merges", "raised"]))
    for ix, _ in drifts:
        vd.spec_drift("Filter", f"document {docs[ix][:100]!r}")
    nref = sum(1 for o in dobs for m in o["merges"] for c in m["ext"] if c["ref"])
    ev.sample({"document": docs[0], "cites": [(c["cls"], c["s"], c["e"]) for c in dobs[0]["cites"]]})
    ev.cov["traces_validated_against_impl"] = total
    ev.cov["evaluations"] = total
    ev.cov["distinct_nontrivial"] = len(lists) + len(set(docs))
    ev.cov["markup_mode_documents"] = sum(1 for it in ditems if "markup" in it)
    ev.cov["remove_ambiguous_documents"] = sum(1 for it in ditems if it.get("ra"))
    ev.cov["rule"] = "every list of MC_Filter_emit; distinct generated documents (fragment pairs x separators, seeded longer documents), each with two merge histories"
    ev.cov["reference_citations_in_merge_histories"] = nref
    ev.cov["documents_raised_not_judged_here"] = sum(1 for o in dobs if o["raised"])
    ev.cov["exhaustive"] = True
    ev.assumptions = ["list generation constraints of MC_Filter (what extraction can produce)", "TLC, Json community module"]
    ev.write(vd)
    return vd.exit_code()


if __name__ == "__main__":
    vlib.main_wrapper(sys.argv[1], lambda: main(sys.argv[1]))
