"""Driver for C13 / C15: the Aho-Corasick pre-filter against the unfiltered reference tokenizer."""
import json
import re


def tok_repr(w):
    from eyecite.models import Token
    if not isinstance(w, Token):
        return "w:" + str(w)
    eds = ""
    if hasattr(w, "exact_editions"):
        eds = "|E" + ",".join(sorted(f"{e.reporter.short_name}/{e.short_name}" for e in w.exact_editions)) + \
              "|V" + ",".join(sorted(f"{e.reporter.short_name}/{e.short_name}" for e in w.variation_editions)) + \
              f"|s{int(w.short)}"
    return f"T:{type(w).__name__}|{w.start}|{w.end}|{str(w)}|{json.dumps(w.groups, sort_keys=True)}{eds}"


def stream(tk, text):
    words, ctoks = tk.tokenize(text)
    return [tok_repr(w) for w in words], [i + 1 for i, _ in ctoks]


def run_diff(payload):
    """items: {text, sub: null | [extractor indices]}; full list or sub-list, Aho vs reference"""
    from eyecite.tokenizers import EXTRACTORS, AhocorasickTokenizer, Tokenizer
    cache = {}
    res = []
    for it in payload["items"]:
        key = tuple(it["sub"]) if it["sub"] is not None else None
        if it.get("custom"):
            key = ("custom",) + (key or ())
        if key not in cache:
            if key and key[0] == "custom":
                # a caller's own extractors next to (a sub-list of) the shipped ones: case-insensitive and case-sensitive
                # patterns whose filter strings are written in mixed case, as a caller naturally writes them
                from eyecite.models import StopWordToken, TokenExtractor
                from eyecite.regexes import space_boundaries_re, strip_punctuation_re
                sig = ["Cf.", "Accord", "Contra", "But see"]
                own = [TokenExtractor(space_boundaries_re(strip_punctuation_re(r"(?P<stop_word>cf\.|accord|contra|but see)")),
                                      StopWordToken.from_match, flags=re.I, strings=sig),
                       TokenExtractor(space_boundaries_re(strip_punctuation_re(r"(?P<stop_word>Semble|Sed vide)")),
                                      StopWordToken.from_match, strings=["Semble", "Sed vide"])]
                base = [EXTRACTORS[i] for i in key[1:]] if len(key) > 1 else list(EXTRACTORS[-5:])
                L = base + own
            else:
                L = list(EXTRACTORS) if key is None else [EXTRACTORS[i] for i in key]
            cache[key] = (L, Tokenizer(extractors=L), AhocorasickTokenizer(extractors=L))
        L, ref, aho = cache[key]
        text = it["text"]
        o = {"text": text, "sub": it["sub"] is not None, "raised": "", "ref": [], "refix": [], "aho": [], "ahoix": [],
             "matching": [], "selected": []}
        try:
            o["matching"] = [i + 1 for i, e in enumerate(L) if e.compiled_regex.search(text)]
            sel = aho.get_extractors(text)
            ids = {id(e): i + 1 for i, e in enumerate(L)}
            o["selected"] = sorted(ids.get(id(e), 0) for e in sel)
            o["ref"], o["refix"] = stream(ref, text)
            o["aho"], o["ahoix"] = stream(aho, text)
        except Exception as ex:  # noqa: BLE001
            o["raised"] = f"{type(ex).__name__}: {ex}"
        res.append(o)
    return res


def confirm(payload):
    """is `word` matched by extractor x's real pattern, and does the real filter select x?"""
    from eyecite.tokenizers import EXTRACTORS, AhocorasickTokenizer
    aho = AhocorasickTokenizer()
    res = []
    for it in payload["items"]:
        e = EXTRACTORS[it["x"] - 1]
        m = bool(e.compiled_regex.search(it["word"]))
        sel = any(s is e for s in aho.get_extractors(it["word"]))
        res.append({"matches": m, "selected": sel, "regex": e.regex[:300], "strings": list(e.strings)[:20]})
    return res


def nfa(payload):
    import regex2nfa
    n = regex2nfa.main(payload["out"])
    return {"extractors": n}


def ci_strings(payload):
    """filter strings of the case-insensitive extractors: [[extractor index (0-based), [strings]]]"""
    from eyecite.tokenizers import EXTRACTORS
    return [[i, sorted(e.strings)] for i, e in enumerate(EXTRACTORS) if e.flags & re.I and e.strings]
