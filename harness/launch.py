"""Runs one chk_*.py script, forwarding its output, and enforces the exit-code contract:
exit 1 only together with a `VIOLATION property=` line; anything else that is not 0 (an
interpreter crash, an import error, a signal) is a machinery failure: exit 2."""
import subprocess
import sys

script, pid = sys.argv[1], sys.argv[2]
p = subprocess.Popen([sys.executable, script, pid], stdout=subprocess.PIPE, text=True, errors="replace")
seen = False
for line in p.stdout:
    if line.startswith(f"VIOLATION property={pid} "):
        seen = True
    sys.stdout.write(line)
    sys.stdout.flush()
rc = p.wait()
if rc == 0 and seen:
    print(f"ERROR machinery property={pid}: a VIOLATION line was printed but the check exited 0", file=sys.stderr)
    rc = 2
elif rc == 1 and not seen:
    print(f"ERROR machinery property={pid}: exit code 1 without a VIOLATION line (harness crash?)", file=sys.stderr)
    rc = 2
elif rc not in (0, 1, 2):
    print(f"ERROR machinery property={pid}: check process ended with status {rc}", file=sys.stderr)
    rc = 2
sys.exit(rc)
