"""Translate eyecite's extractor patterns into epsilon-free NFAs whose edges are labelled with
the input the Aho-Corasick filter sees (runs under /venv/bin/python, eyecite from /repo).

For each extractor e (pattern p, flags f, filter strings S):
  * p is parsed with Python's own parser (re._parser.parse); only LITERAL, NOT_LITERAL, IN, ANY,
    BRANCH, SUBPATTERN, MAX/MIN_REPEAT and AT occur (anything else marks e "unsupported").
    Anchors are treated as epsilon (this only enlarges L(p); a counterexample word used alone as
    the text still satisfies them).
  * which code points an atom (a literal, a class, '.') matches is asked of `re` itself, once
    per distinct atom over all 0x110000 code points, so \\d \\s \\w and the case-insensitive
    equivalences are Python's, not transcribed.
  * the filter folds the text (identity for case-sensitive extractors; the tokenizer's fold for
    case-insensitive ones, read from eyecite.tokenizers when present) and searches the literals.
    An edge labelled by atom a is replaced by one edge per distinct fold image
    (a sequence of literal characters / OTHER) over the code points a matches.
  * the literal set becomes an Aho-Corasick automaton (goto table completed with failure links).
Output: JSON for RegexIncl.tla + witness words (shortest accepted words) for the differential runs.
"""
import json
import re
import sys
from collections import deque

import numpy as np

P = re._parser  # noqa: SLF001  (Python's own regex parser)
C = re._constants  # noqa: SLF001
NCP = 0x110000
ALL = "".join(map(chr, range(NCP)))
OTHER = -1
IDENT = lambda ch: ch  # noqa: E731


def atom_source(op, av):
    """regex source text of an atomic predicate"""
    def esc(c):
        return re.escape(chr(c))
    if op is C.LITERAL:
        return esc(av)
    if op is C.NOT_LITERAL:
        return "[^" + esc(av) + "]"
    if op is C.ANY:
        return "."
    if op is C.IN:
        parts = []
        for o, a in av:
            if o is C.NEGATE:
                parts.append("^")
            elif o is C.LITERAL:
                parts.append(esc(a))
            elif o is C.RANGE:
                parts.append(esc(a[0]) + "-" + esc(a[1]))
            elif o is C.CATEGORY:
                parts.append({C.CATEGORY_DIGIT: r"\d", C.CATEGORY_NOT_DIGIT: r"\D", C.CATEGORY_SPACE: r"\s",
                              C.CATEGORY_NOT_SPACE: r"\S", C.CATEGORY_WORD: r"\w", C.CATEGORY_NOT_WORD: r"\W"}[a])
            else:
                raise ValueError(f"class item {o}")
        return "[" + "".join(parts) + "]"
    raise ValueError(op)


class Builder:
    """Thompson construction with epsilon edges; atoms are interned (source, ignorecase)."""

    def __init__(self, atoms):
        self.atoms = atoms
        self.n = 0
        self.eps = []
        self.edges = []

    def new(self):
        self.n += 1
        self.eps.append(set())
        return self.n - 1

    def atom(self, op, av, flags):
        key = (atom_source(op, av), bool(flags & re.I), bool(flags & re.S))
        if key not in self.atoms:
            self.atoms[key] = len(self.atoms)
        return self.atoms[key]

    def seq(self, items, flags, start):
        cur = start
        for op, av in items:
            cur = self.node(op, av, flags, cur)
        return cur

    def node(self, op, av, flags, s):
        if op in (C.LITERAL, C.NOT_LITERAL, C.ANY, C.IN):
            t = self.new()
            self.edges.append((s, self.atom(op, av, flags), t))
            return t
        if op is C.AT:
            return s
        if op is C.SUBPATTERN:
            _, add, dele, sub = av
            return self.seq(sub, (flags | add) & ~dele, s)
        if op is C.BRANCH:
            t = self.new()
            for alt in av[1]:
                a = self.new()
                self.eps[s].add(a)
                self.eps[self.seq(alt, flags, a)].add(t)
            return t
        if op in (C.MAX_REPEAT, C.MIN_REPEAT):
            lo, hi, sub = av
            cur = s
            for _ in range(lo):
                cur = self.seq(sub, flags, cur)
            if hi is C.MAXREPEAT:
                a = self.new()
                self.eps[cur].add(a)
                b = self.seq(sub, flags, a)
                self.eps[b].add(a)
                t = self.new()
                self.eps[a].add(t)
                return t
            t = self.new()
            self.eps[cur].add(t)
            for _ in range(hi - lo):
                cur = self.seq(sub, flags, cur)
                self.eps[cur].add(t)
            return t
        raise NotImplementedError(str(op))


def eps_free(b, start, final):
    closure = []
    for q in range(b.n):
        seen, st = {q}, [q]
        while st:
            for r in b.eps[st.pop()]:
                if r not in seen:
                    seen.add(r)
                    st.append(r)
        closure.append(seen)
    by_src = {}
    for s, a, t in b.edges:
        by_src.setdefault(s, []).append((a, t))
    # states that matter: start and targets of atom edges
    keep = sorted({start} | {t for _, _, t in b.edges})
    idx = {q: i for i, q in enumerate(keep)}
    trans, finals = set(), set()
    for q in keep:
        for r in closure[q]:
            if r == final:
                finals.add(idx[q])
            for a, t in by_src.get(r, ()):
                trans.add((idx[q], a, idx[t]))
    return len(keep), idx[start], sorted(finals), sorted(trans)


def ac_build(words):
    """Aho-Corasick over tuples of symbols; returns (alphabet, next table, hit flags)."""
    alpha = sorted({c for w in words for c in w})
    goto, out = [{}], [False]
    for w in words:
        s = 0
        for c in w:
            if c not in goto[s]:
                goto[s][c] = len(goto)
                goto.append({})
                out.append(False)
            s = goto[s][c]
        out[s] = True
    fail = [0] * len(goto)
    dq = deque()
    for c, s in goto[0].items():
        dq.append(s)
    nxt = [dict() for _ in goto]
    for c in alpha:
        nxt[0][c] = goto[0].get(c, 0)
    order = []
    while dq:
        s = dq.popleft()
        order.append(s)
        for c, t in goto[s].items():
            dq.append(t)
            f = fail[s]
            while f and c not in goto[f]:
                f = fail[f]
            fail[t] = goto[f].get(c, 0) if goto[f].get(c, 0) != t else 0
            out[t] = out[t] or out[fail[t]]
    for s in order:
        for c in alpha:
            nxt[s][c] = goto[s][c] if c in goto[s] else nxt[fail[s]][c]
    return alpha, nxt, out


def fold_ci():
    """the fold the case-insensitive automaton is fed with, as the tokenizer does it"""
    import eyecite.tokenizers as T
    table = getattr(T, "IGNORECASE_EXTRA_FOLDS", None)
    if table:
        return lambda ch: ch.translate(table).lower()
    return lambda ch: ch.lower()


def build(extractors):
    atoms = {}
    per = []
    for e in extractors:
        b = Builder(atoms)
        try:
            tree = P.parse(e.regex, e.flags)
            s = b.new()
            f = b.seq(tree, e.flags, s)
            per.append((b, s, f, None))
        except (NotImplementedError, ValueError, KeyError) as ex:
            per.append((None, None, None, f"{type(ex).__name__}: {ex}"))
    # membership of every code point in every atom, asked of re itself
    keys = sorted(atoms, key=atoms.get)
    member = np.zeros((len(keys), NCP), dtype=bool)
    for (src, ic, ds), i in atoms.items():
        rx = re.compile(src, (re.I if ic else 0) | (re.S if ds else 0))
        pos = np.fromiter((m.start() for m in rx.finditer(ALL)), dtype=np.int64)
        member[i, pos] = True
    return atoms, member, per


def images(member_row, litset, fold):
    """distinct fold images (tuples over litset / OTHER) of the code points in an atom, with a
    representative code point for each image"""
    out = {}
    if fold is IDENT:
        # identity fold: a literal character is its own image, everything else is OTHER
        for ch in litset:
            if member_row[ord(ch)]:
                out[(ord(ch),)] = ord(ch)
        rest = member_row.copy()
        rest[[ord(ch) for ch in litset]] = False
        nz = np.flatnonzero(rest)
        if nz.size:
            # prefer a printable ASCII representative
            pick = [c for c in nz[:200].tolist() if 33 <= c < 127] or nz[:1].tolist()
            out[(OTHER,)] = pick[0]
        return out
    cps = np.nonzero(member_row)[0]
    # every code point that folds to something touching a literal character must be looked at
    # individually; all others fold to OTHER-only images of length len(fold(c))
    for c in cps.tolist():
        ch = chr(c)
        f = fold(ch)
        img = tuple(ord(d) if d in litset else OTHER for d in f)
        if img not in out:
            out[img] = c
    return out


def main(out_path, only=None):
    from eyecite.tokenizers import EXTRACTORS
    exts = list(EXTRACTORS)
    atoms, member, per = build(exts)
    fci = fold_ci()
    ident = IDENT
    # cache: fold images per (atom, mode) restricted later per extractor
    lits_cs = {c for e in exts if e.strings and not e.flags & re.I for s in e.strings for c in s}
    lits_ci = {c for e in exts if e.strings and e.flags & re.I for s in e.strings for c in s.lower()}
    img_cache = {}

    def img(a, ci):
        if (a, ci) not in img_cache:
            img_cache[(a, ci)] = images(member[a], lits_ci if ci else lits_cs, fci if ci else ident)
        return img_cache[(a, ci)]

    data, witness, info = [], [], []
    for x, e in enumerate(exts):
        b, s, f, err = per[x]
        rec = {"id": x + 1, "unsupported": err or "", "nofilter": not e.strings, "n": 0, "init": 0, "final": [],
               "out": [], "acnext": [], "achit": [], "alpha": []}
        wit = None
        if not err:
            n, init, finals, trans = eps_free(b, s, f)
            ci = bool(e.flags & re.I)
            words = [tuple(ord(c) for c in (w.lower() if ci else w)) for w in e.strings]
            alpha, nxt, hit = ac_build(words) if words else ([], [dict()], [False])
            aset = set(alpha)
            tr, rep = set(), {}
            for q, a, t in trans:
                for im, cp in img(a, ci).items():
                    red = tuple(c if c in aset else OTHER for c in im)
                    tr.add((q, red, t))
                    rep.setdefault((q, red, t), cp)
            rec.update({"n": n, "init": init + 1, "final": [q + 1 for q in finals],
                        # out[q] = outgoing edges of q: [fold image as AC symbol indices (0 = OTHER), target]
                        "out": [[[[alpha.index(c) + 1 if c != OTHER else 0 for c in im], t + 1]
                                 for (qq, im, t) in sorted(tr) if qq == q] for q in range(n)],
                        "alpha": alpha,
                        "acnext": [[nxt[st][c] + 1 for c in alpha] for st in range(len(nxt))],
                        "achit": hit})
            # shortest accepted word (BFS over the NFA alone) -> witness text for differential runs
            prev = {init: None}
            dq = deque([init])
            by = {}
            for q, im, t in sorted(tr):
                by.setdefault(q, []).append((im, t))
            goal = None
            fs = set(finals)
            while dq:
                q = dq.popleft()
                if q in fs:
                    goal = q
                    break
                for im, t in by.get(q, ()):
                    if t not in prev:
                        prev[t] = (q, im)
                        dq.append(t)
            if goal is not None:
                chars = []
                q = goal
                while prev[q] is not None:
                    pq, im = prev[q]
                    chars.append(chr(rep[(pq, im, q)]))
                    q = pq
                wit = "".join(reversed(chars))
        data.append(rec)
        witness.append(wit)
        info.append({"id": x + 1, "regex": e.regex[:200], "flags": int(e.flags), "strings": list(e.strings)[:50]})
    json.dump({"ext": data}, open(out_path, "w"))
    json.dump({"witness": witness, "info": info, "atoms": len(atoms)}, open(out_path + ".aux", "w"))
    return len(exts)


if __name__ == "__main__":
    print(main(sys.argv[1]))
