"""Driver (runs inside /venv/bin/python with eyecite imported from /repo):
concretise abstract Resolve.tla citations into real citation objects, run the
real resolve_citations on the list and on every prefix, project the result.

Abstraction maps (DESIGN 3.10, kept trivial):
  rv   r1 -> (F.2d, vol 1)  r2 -> (F.3d, vol 1)  r3 -> (F.2d, vol 2): same reporter, different
       edition / same edition, different volume ("F. 2d"/"F. 3d" spelling on odd positions:
       variations that normalise to the edition)
  atom a,b,c,d,z -> Kappa, Lomax, Mirren, Noxon, Zeta  (no word is a substring of another,
       so Python `in` on the rendered names is set membership of atoms)
  pg   n -> str(n), NoPage(-1) -> "_" / "__" / "___" by position (placeholder, becomes None), NoGroup(-2) -> no page group,
       NonNumeric(-3) / Big(-4) -> the text in `id`, Huge(-5) -> 5,000 digits
  pin  n -> "at n", NoPin(-1) -> None, BadPin(-2) -> "at ¶ 10"
projection: resolution dict -> list of groups, each a list of 1-based input positions
  (object identity via id(); an object that is not in the input projects to -1).
"""
import traceback

WORDS = {"a": "Kappa", "b": "Lomax", "c": "Mirren", "d": "Noxon", "z": "Zeta"}
RV = {"r1": ("F.2d", "1"), "r2": ("F.3d", "1"), "r3": ("F.2d", "2")}
VARIANT = {"F.2d": "F. 2d", "F.3d": "F. 3d"}


def name(atoms):
    if not atoms:
        return None
    return " ".join(WORDS[a] for a in sorted(atoms))


def make(sym, pos):
    from eyecite.models import (CaseReferenceToken, CitationToken, FullCaseCitation,
                                FullJournalCitation, FullLawCitation, IdCitation, IdToken,
                                ReferenceCitation, SectionToken, ShortCaseCitation,
                                SupraCitation, SupraToken, UnknownCitation)
    from eyecite.tokenizers import EDITIONS_LOOKUP
    k = sym["k"]
    s, e = pos * 100, pos * 100 + 50

    def res_cite(cls, text, reporter, groups, metadata, short=False, found=None):
        ed = EDITIONS_LOOKUP[reporter][0]
        groups = dict(groups)
        groups["reporter"] = found or reporter
        tok = CitationToken(text, s, e, groups=groups, exact_editions=[ed] if not found else [],
                            variation_editions=[ed] if found else [], short=short)
        c = cls(tok, pos, metadata=metadata, exact_editions=tok.exact_editions,
                variation_editions=tok.variation_editions)
        c.guess_edition()
        return c

    if k in ("fc", "sc"):
        rep, vol = RV[sym["rv"]]
        found = VARIANT[rep] if pos % 2 == 1 else None
        if k == "fc":
            pg = "_" * (1 + pos % 3) if sym["pg"] == -1 else str(sym["pg"])      # a placeholder of one, two or three underscores
            if sym["pg"] in (-3, -4, -5):           # a page identified by its text (NonNumeric / Big / Huge)
                pg = "1" * 5000 if sym["id"] == "huge" else sym["id"]
            md = {"plaintiff": name(sym["pl"]), "defendant": name(sym["df"]), "year": "1999",
                  "court": "ca2"}
            return res_cite(FullCaseCitation, f"{vol} {found or rep} {pg}", rep,
                            {"volume": vol, "page": pg}, md, found=found)
        md = {"antecedent_guess": None if sym["ag"] == "-" else WORDS[sym["ag"]] + ",", "pin_cite": "7"}
        return res_cite(ShortCaseCitation, f"{vol} {found or rep} at 7", rep,
                        {"volume": vol, "page": "7"}, md, short=True, found=found)
    if k == "fl":
        sec = {"l1": "2", "l2": "3"}[sym["id"]]
        return res_cite(FullLawCitation, f"Mass. Gen. Laws ch. 1, § {sec}", "Mass. Gen. Laws",
                        {"chapter": "1", "section": sec}, {"year": "1999"})
    if k == "fj":
        vol = {"j1": "1", "j2": "2"}[sym["id"]]
        pg = "_" * (1 + pos % 3) if sym["pg"] == -1 else str(sym["pg"])
        return res_cite(FullJournalCitation, f"{vol} Minn. L. Rev. {pg}", "Minn. L. Rev.",
                        {"volume": vol, "page": pg}, {"year": "1999"})
    if k == "su":
        md = {"antecedent_guess": None if sym["ag"] == "-" else WORDS[sym["ag"]] + ",", "pin_cite": "at 7"}
        return SupraCitation(SupraToken("supra,", s, e), pos, metadata=md)
    if k == "rf":
        fields = ["plaintiff", "defendant", "resolved_case_name_short", "resolved_case_name"]
        names = sorted(name(n) for n in sym["nm"])
        md = {f: n for f, n in zip(fields[pos % 2:] + fields[:pos % 2], names)}
        md["pin_cite"] = "7" if pos % 3 else None       # (a reference found through markup emphasis has no pin cite)
        return ReferenceCitation(CaseReferenceToken("Name at 7", s, e), pos, metadata=md)
    if k == "id":
        p = sym["pin"]
        pin = None if p == -1 else ("at ¶ 10" if p == -2 else f"at {p}")
        return IdCitation(IdToken("Id.", s, e), pos, metadata={"pin_cite": pin})
    if k == "un":
        return UnknownCitation(SectionToken("§99", s, e), pos)
    raise ValueError(k)


def project(res, objs):
    pos = {id(o): i + 1 for i, o in enumerate(objs)}
    groups = []
    for key, lst in res.items():
        groups.append({"key": pos.get(id(getattr(key, "citation", None)), -1),
                       "m": [pos.get(id(o), -1) for o in lst]})
    return groups


def resolve_one(syms, prefixes=True):
    from eyecite.resolve import resolve_citations
    objs = [make(s, i) for i, s in enumerate(syms)]
    out = {"raised": None, "groups": None, "prefix": []}
    try:
        res = resolve_citations(objs)
        out["groups"] = project(res, objs)
        if not isinstance(res, dict):
            out["raised"] = "TypeError: result is not a mapping"
    except Exception as ex:  # noqa: BLE001 - recorded, judged by the monitor (C04)
        out["raised"] = f"{type(ex).__name__}: {ex}"
        out["tb"] = traceback.format_exc()[-600:]
        out.update(trace_fields(out))
        return out
    if prefixes:
        for k in range(len(objs)):
            try:
                out["prefix"].append(project(resolve_citations(objs[:k]), objs))
            except Exception as ex:  # noqa: BLE001
                out["prefix"].append([{"key": -1, "m": [-1], "raised": type(ex).__name__}])
    out.update(trace_fields(out))
    return out


def trace_fields(o):
    """the fields of a Trace_Resolve record that come from the code"""
    return {"g": o["groups"] or [], "r": o["raised"] or "",
            "pre": [[g for g in pre] for pre in o["prefix"]] if not o["raised"] else []}


def run_edit(payload):
    """history: the list is resolved, then a caller EDITS the objects -- the plaintiff of every full case citation is
    cleared (a public metadata field) -- and the same objects are resolved again, with every prefix.  The returned
    record is the SECOND resolution; the harness judges it against the list of symbols with empty plaintiffs."""
    from eyecite.models import FullCaseCitation
    from eyecite.resolve import resolve_citations
    alpha = payload["common"]["alphabet"]
    res = []
    for path in payload["items"]:
        syms = [alpha[i - 1] for i in path]
        objs = [make(s, i) for i, s in enumerate(syms)]
        out = {"raised": None, "groups": None, "prefix": []}
        try:
            resolve_citations(objs)
            for k in range(len(objs)):
                resolve_citations(objs[:k])
            for c in objs:
                if isinstance(c, FullCaseCitation):
                    c.metadata.plaintiff = None
            out["groups"] = project(resolve_citations(objs), objs)
            for k in range(len(objs)):
                out["prefix"].append(project(resolve_citations(objs[:k]), objs))
        except Exception as ex:  # noqa: BLE001
            out["raised"] = f"{type(ex).__name__}: {ex}"
        out.update(trace_fields(out))
        res.append(out)
    return res


def run(payload):
    alpha = payload["common"]["alphabet"]
    res = []
    for path in payload["items"]:
        syms = [alpha[i - 1] for i in path]
        res.append(resolve_one(syms, payload["common"].get("prefixes", True)))
    return res


def page_class(pg):
    """page group -> Resolve.tla page: number (< 10^9), NoPage -1, NonNumeric -3, Big -4 (all digits, beyond
    every pin cite, int() converts it), Huge -5 (more digits than int() converts)"""
    import sys
    if pg is None:
        return -1
    t = str(pg)
    if not t.isdigit():
        return -3
    if len(t) < 9:
        return int(t)
    limit = sys.get_int_max_str_digits() if hasattr(sys, "get_int_max_str_digits") else 0
    return -5 if limit and len(t) > limit else -4


def page_text(pg):
    import hashlib
    t = str(pg)
    return t if len(t) <= 40 else f"{len(t)}:{hashlib.sha1(t.encode('utf8', 'surrogatepass')).hexdigest()[:12]}"


def abstract_extracted(cs):
    """Abstract citations returned by get_citations into Resolve.tla records (ground truth for the
    monitors is read off the extracted attributes, never off the resolution):
      rv   corrected reporter | volume;  pg page number / NoPage / NoGroup
      name atoms = the distinct punctuation-stripped antecedents of the document; a party name
      'contains' an atom iff the atom is a substring (exactly the code's `in`)"""
    from eyecite.models import (FullCaseCitation, FullJournalCitation, FullLawCitation, IdCitation,
                                ReferenceCitation, ShortCaseCitation, SupraCitation)
    from eyecite.utils import strip_punct
    import re as _re
    antes = []
    for c in cs:
        if isinstance(c, (ShortCaseCitation, SupraCitation)) and c.metadata.antecedent_guess:
            a = strip_punct(c.metadata.antecedent_guess)
            if a not in antes:
                antes.append(a)
    atom = {a: f"n{i}" for i, a in enumerate(antes)}

    def names(s):
        return [atom[a] for a in antes if s and a in s]
    out = []
    for c in cs:
        rec = {"k": "un", "rv": "", "pg": -2, "pl": [], "df": [], "ag": "-", "nm": [], "pin": -1, "id": ""}
        if isinstance(c, FullCaseCitation) or isinstance(c, ShortCaseCitation):
            rec["rv"] = f"{c.corrected_reporter()}|{c.groups.get('volume')}"
        if isinstance(c, FullCaseCitation):
            pg = c.groups.get("page")
            rec.update(k="fc", pg=page_class(pg), pl=names(c.metadata.plaintiff), df=names(c.metadata.defendant))
            if rec["pg"] in (-3, -4, -5):
                rec["id"] = page_text(pg)       # identity by its text
        elif isinstance(c, (FullLawCitation, FullJournalCitation)):
            pg = c.groups.get("page") if "page" in c.groups else "nogroup"
            rec.update(k="fl" if isinstance(c, FullLawCitation) else "fj",
                       id=repr(sorted((k, str(v)) for k, v in c.groups.items())) + repr(sorted(e.short_name for e in c.all_editions)),
                       pg=(-2 if pg == "nogroup" else page_class(pg)))
        elif isinstance(c, ShortCaseCitation):
            a = c.metadata.antecedent_guess
            rec.update(k="sc", ag=atom[strip_punct(a)] if a else "-")
        elif isinstance(c, SupraCitation):
            a = c.metadata.antecedent_guess
            rec.update(k="su", ag=atom[strip_punct(a)] if a else "-")
        elif isinstance(c, ReferenceCitation):
            rec.update(k="rx")
        elif isinstance(c, IdCitation):
            p = c.metadata.pin_cite
            m = _re.match(r"(?:at )?(\d+)", p) if p else None
            rec.update(k="id", pin=(-1 if not p else (int(m[1]) if m and len(m[1]) < 9 else -2)))
        out.append(rec)
    return out


def run_docs(payload):
    """resolve the list extracted from each document, and every prefix of it"""
    from eyecite import get_citations
    from eyecite.resolve import resolve_citations
    res = []
    for text in payload["items"]:
        o = {"text": text, "raised": None, "groups": None, "prefix": [], "cites": []}
        try:
            cs = get_citations(text)
            o["cites"] = abstract_extracted(cs)
            r = resolve_citations(cs)
            o["groups"] = project(r, cs)
            for k in range(len(cs)):
                o["prefix"].append(project(resolve_citations(cs[:k]), cs))
            # history: the SAME objects are resolved again after a caller learned more about them -- the year of a citation
            # whose reporter string names several editions is filled in and its edition guessed (public attributes and
            # method).  Equality is about the current values, so the second result is judged against the abstraction of the
            # objects as they are NOW.
            from eyecite.models import ResourceCitation
            changed = False
            for c in cs:
                if isinstance(c, ResourceCitation) and c.edition_guess is None and c.year is None:
                    eds = [e for e in (c.exact_editions or c.variation_editions) if e.start]
                    if len(eds) >= 2:
                        c.year = eds[len(eds) - 1].start.year
                        c.guess_edition()
                        changed = changed or c.edition_guess is not None
            if changed:
                sec = {"cites": abstract_extracted(cs), "groups": project(resolve_citations(cs), cs), "prefix": []}
                for k in range(len(cs)):
                    sec["prefix"].append(project(resolve_citations(cs[:k]), cs))
                o["second"] = sec
        except Exception as ex:  # noqa: BLE001
            o["raised"] = f"{type(ex).__name__}: {ex}"
        res.append(o)
    return res


# ---------------------------------------------------------------- ResolveGeneric.tla: user-supplied resolvers
GEN_SYM = {"full": {"k": "fc", "rv": "r1", "pg": 10, "pl": ["a"], "df": ["b"], "ag": "-", "nm": [], "pin": -1, "id": ""},
           "short": {"k": "sc", "rv": "r1", "pg": -2, "pl": [], "df": [], "ag": "b", "nm": [], "pin": -1, "id": ""},
           "supra": {"k": "su", "rv": "", "pg": -2, "pl": [], "df": [], "ag": "b", "nm": [], "pin": -1, "id": ""},
           "ref": {"k": "rf", "rv": "", "pg": -2, "pl": [], "df": [], "ag": "-", "nm": [["b"]], "pin": -1, "id": ""},
           "id": {"k": "id", "rv": "", "pg": -2, "pl": [], "df": [], "ag": "-", "nm": [], "pin": -1, "id": ""},
           "unknown": {"k": "un", "rv": "", "pg": -2, "pl": [], "df": [], "ag": "-", "nm": [], "pin": -1, "id": ""}}
RES_OBJ = {-1: None, 0: "", 1: "R1", 2: "R2"}        # 0: a falsy resource object
RES_VAL = {None: -1, "": 0, "R1": 1, "R2": 2}


def run_generic(payload):
    """items: {k: [kind...], o: [outcome...]}: resolve_citations with table-driven callbacks that return
    o[position] and log what they were handed"""
    from eyecite.resolve import resolve_citations
    res = []
    for it in payload["items"]:
        kinds, outs = it["k"], it["o"]
        objs = [make(GEN_SYM[k], i) for i, k in enumerate(kinds)]
        pos = {id(c): i + 1 for i, c in enumerate(objs)}
        recs = [{"ncalls": 0, "n": -1, "list": [], "last": -1} for _ in kinds]

        def outcome(c):
            return RES_OBJ[outs[pos[id(c)] - 1]]

        def r_full(c):
            r = recs[pos[id(c)] - 1]
            r["ncalls"] += 1
            r["n"] = 0
            return outcome(c)

        def r_list(c, rfc):
            r = recs[pos[id(c)] - 1]
            r["ncalls"] += 1
            r["n"] = len(rfc)
            r["list"] = [[pos.get(id(f), 0), RES_VAL.get(x, -9)] for f, x in rfc]
            return outcome(c)

        def r_id(c, last, resolutions):
            r = recs[pos[id(c)] - 1]
            r["ncalls"] += 1
            r["last"] = RES_VAL.get(last, -9)
            return outcome(c)
        o = {"k": kinds, "o": outs, "recs": recs, "g": [], "r": ""}
        try:
            out = resolve_citations(objs, resolve_full_citation=r_full, resolve_shortcase_citation=r_list,
                                    resolve_supra_citation=r_list, resolve_reference_citation=r_list,
                                    resolve_id_citation=r_id)
            o["g"] = [{"key": RES_VAL.get(k, -9), "m": [pos.get(id(c), 0) for c in v]} for k, v in out.items() if v]
            o["empty_keys"] = sum(1 for v in out.values() if not v)
        except Exception as ex:  # noqa: BLE001
            o["r"] = f"{type(ex).__name__}: {ex}"[:200]
        res.append(o)
    return res
