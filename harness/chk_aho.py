"""Check C13 (Aho-Corasick pre-filter is lossless).
 (i)   order/selection invisibility: MC_Tokenize's OrderIndependent invariant (C12 run) -- a
       selection that contains every matching extractor yields the reference token stream.
 (ii)  RegexIncl.tla: for every extractor built from the installed reporters-db, TLC decides
       L(pattern) is included in Sigma* literals Sigma* on the product NFA x Aho-Corasick automaton;
       every counterexample is confirmed on the real regex and the real filter before it counts.
 (iii) differential traces judged by Trace_AhoFilter.tla: one witness text per extractor
       (shortest accepted word of its NFA), generated documents, and random sub-lists.
"""
import json
import os
import random
import re
import sys
import time
from collections import deque

import gendocs
import vlib
from vlib import Evidence, MachineryError, Verdict, run_tlc, tlc_must_pass, tlc_judge


def cex_word(rec, aux_witness):
    """shortest word accepted by the pattern NFA with no literal inside (product BFS)"""
    out, nxt, hit = rec["out"], rec["acnext"], rec["achit"]
    fin = set(rec["final"])
    start = (rec["init"], 1)
    prev = {start: None}
    dq = deque([start])
    while dq:
        q, s = dq.popleft()
        if q in fin:
            syms = []
            cur = (q, s)
            while prev[cur] is not None:
                cur, im = prev[cur]
                syms.append(im)
            return list(reversed(syms))
        for im, t in out[q - 1]:
            st, ok = s, True
            for sym in im:
                st = 1 if sym == 0 else nxt[st - 1][sym - 1]
                if hit[st - 1]:
                    ok = False
                    break
            if ok and (t, st) not in prev:
                prev[(t, st)] = ((q, s), im)
                dq.append((t, st))
    return None


CASE_ALTS = {"i": ["I", "\u0130", "\u0131"], "s": ["S", "\u017f"], "k": ["K", "\u212a"]}


def case_variants(s):
    """spellings of a filter string that a case-insensitive pattern still matches: every single character replaced
    by each of its case variants (for i, s, k also the non-ASCII ones re.IGNORECASE accepts: U+0130, U+0131, U+017F,
    U+212A), and all characters replaced at once (one variant class at a time)"""
    low = s.lower()
    out = {s, low, low.upper()}
    for pos, ch in enumerate(low):
        for alt in CASE_ALTS.get(ch, [ch.upper()]):
            out.add(low[:pos] + alt + low[pos + 1:])
    for pick in range(3):
        out.add("".join((CASE_ALTS[ch][min(pick, len(CASE_ALTS[ch]) - 1)] if ch in CASE_ALTS else ch) for ch in low))
    return sorted(out)


def main(pid):
    thorough = vlib.tier() == "thorough"
    ev, vd = Evidence(pid), Verdict(pid)
    rnd = random.Random(vlib.seed())
    nfa_file = vlib.WORK / f"nfa-{os.getpid()}-{time.time_ns()}.json"
    vlib.WORK.mkdir(exist_ok=True)
    n = vlib.impl_run("drv_aho", "nfa", {"out": str(nfa_file)})["extractors"]
    aux = json.loads(open(str(nfa_file) + ".aux").read())
    # (ii)
    r = run_tlc("RegexIncl", "RegexIncl.cfg", env={"NFA_FILE": str(nfa_file)}, timeout=2400)
    tlc_must_pass(r, "RegexIncl")
    ev.add_tlc("RegexIncl", r, f"{n} extractors, {aux['atoms']} atomic predicates classified over all 0x110000 code points")
    cex = sorted({int(m.group(1)) for m in re.finditer(r'^<<"CEX", (\d+)>>$', r.out, re.M)})
    data = json.loads(nfa_file.read_text())["ext"]
    unsupported = [e["id"] for e in data if e["unsupported"]]
    checked = sum(1 for e in data if not e["unsupported"] and not e["nofilter"])
    if cex:
        items = []
        for x in cex:
            rec = data[x - 1]
            syms = cex_word(rec, aux)
            if syms is None:
                raise MachineryError(f"TLC reported extractor {x} but no counterexample word was found")
            # concretise: literal symbols are code points, OTHER -> a character foreign to every literal
            alpha = rec["alpha"]
            word = "".join(chr(alpha[s - 1]) if s else "☃" for im in syms for s in im)
            items.append({"x": x, "word": word})
        # OTHER must be concretised per edge with a character the atom really matches: ask the driver
        conf = vlib.impl_run("drv_aho", "confirm", {"items": items})
        for it, c in zip(items, conf):
            if c["matches"] and not c["selected"]:
                vd.violation("C13.inclusion", {"extractor": it["x"], "word": it["word"], **c},
                             {"clause": "C13.inclusion", "strings": "|".join(c["strings"][:3])})
            else:
                vd.spec_drift("RegexIncl", f"extractor {it['x']} word {it['word']!r}: model counterexample not confirmed "
                                           f"(matches={c['matches']} selected={c['selected']}); witness concretisation is approximate")
    # (iii)
    wit = [(i, w) for i, w in enumerate(aux["witness"]) if w]
    if len(wit) < checked:
        raise MachineryError(f"only {len(wit)} witness words for {checked} checked extractors")
    texts = [w for _, w in wit] + [f"See {w}, at 5 (1999)." for _, w in wit[:: (1 if thorough else 6)]]
    # case-insensitive extractors: every filter string in every case-variant spelling, bare, in prose, and followed by
    # what the pattern needs after it (the clause "case-insensitively for case-insensitive extractors")
    ci = vlib.impl_run("drv_aho", "ci_strings", {})
    ci_texts = [t for _, strings in ci for st in strings for v in case_variants(st)
                for t in (v, f"x {v} y", f"Foo, {v}, at 5.", f"({v} 1 U.S. 1)")]
    texts += ci_texts
    ev.cov["case_variant_texts"] = len(set(ci_texts))
    docs = list(gendocs.pairs())
    rnd.shuffle(docs)
    texts += docs[: (6000 if thorough else 1200)]
    texts += list(gendocs.random_docs(vlib.seed(), 2000 if thorough else 400, hostile=True))
    texts = [t for t in dict.fromkeys(texts) if "\ud800" not in t]
    items = [{"text": t, "sub": None} for t in texts]
    # sub-lists: each contains the special extractors with probability 1/2 and a random sample
    nsub = 40 if thorough else 12
    special = list(range(n - 5, n))
    for _ in range(nsub):
        sub = sorted(set(rnd.sample(range(n - 5), 40) + (special if rnd.random() < 0.5 else rnd.sample(special, 2))))
        inside = [aux["witness"][i] for i in sub if aux["witness"][i]]
        outside = [w for _, w in rnd.sample(wit, 25)]
        for t in inside + outside + docs[:15]:
            items.append({"text": t, "sub": sub})
    # "every extractor list": a caller's own extractors (filter strings written in mixed case) next to the special shipped ones
    own_texts = ["Cf. Foo v. Bar, 1 U.S. 1.", "cf. 1 U.S. 1", "CF. 1 U.S. 1", "Accord, 2 F.2d 2; accord id. at 5", "ACCORD 2 F.2d 2",
                 "But see Bar, supra, at 3", "but see § 5", "BUT SEE id.", "Contra Foo, 1 U.S. at 5; contra, supra", "Semble 1 U.S. 1; semble not",
                 "Sed vide 3 U.S. 3", "nothing of the kind here"]
    own_texts += [v for st in ("Cf.", "Accord", "Contra", "But see") for v in case_variants(st)]
    items += [{"text": t, "sub": None, "custom": True} for t in own_texts + docs[:40]]
    ev.cov["custom_extractor_texts"] = len(own_texts) + 40
    rnd.shuffle(items)
    obs = vlib.impl_map("drv_aho", "run_diff", items, chunks=vlib.NCPU)
    fails, _ = tlc_judge("Trace_AhoFilter", "Trace_AhoFilter.cfg", obs, ev, "diff", chunk=6000)
    for ix, cl in fails:
        if cl.startswith("C13"):
            o = obs[ix]
            miss = sorted(set(o["matching"]) - set(o["selected"]))
            vd.violation(cl, {"text": o["text"], "sublist": o["sub"], "matching_not_selected": miss[:10],
                              "ref": o["ref"][:30], "aho": o["aho"][:30]},
                         {"clause": cl, "sublist": o["sub"]},
                         judge=vlib.J("Trace_AhoFilter", "Trace_AhoFilter.cfg", o), rerun=vlib.R("drv_aho", "run_diff", items[ix]))
    ev.sample({"text": obs[0]["text"], "matching": obs[0]["matching"][:8], "selected_count": len(obs[0]["selected"])})
    ev.sample({"witness_words": [w for _, w in wit[:5]]})
    nfa_file.unlink(missing_ok=True)
    open(str(nfa_file) + ".aux", "w").close()
    os.unlink(str(nfa_file) + ".aux")
    ev.cov["traces_validated_against_impl"] = len(obs)
    ev.cov["evaluations"] = len(obs) + checked
    ev.cov["distinct_nontrivial"] = len(texts) + checked
    ev.cov["rule"] = ("(ii) one inclusion obligation per extractor that carries filter strings; (iii) distinct texts: a shortest accepted "
                      "word per extractor, plain and embedded in a sentence, fragment-pair documents, hostile documents; plus sub-list runs")
    ev.cov["extractors_checked"] = checked
    ev.cov["extractors_unsupported"] = unsupported
    ev.cov["counterexamples_from_tlc"] = cex
    ev.cov["exhaustive"] = True
    ev.assumptions = ["regex -> NFA translation and the Aho-Corasick table of harness/regex2nfa.py (validated by witness words: every "
                      "shortest accepted word is confirmed to match the real pattern in (iii); every TLC counterexample is confirmed on the real code)",
                      "anchors are treated as epsilon (enlarges L(pattern) only)",
                      "(i) relies on the OrderIndependent invariant of MC_Tokenize (checked by C12)"]
    if unsupported:
        raise MachineryError(f"{len(unsupported)} extractor patterns use constructs the translation does not support: {unsupported[:5]}")
    ev.write(vd)
    return vd.exit_code()


if __name__ == "__main__":
    vlib.main_wrapper(sys.argv[1], lambda: main(sys.argv[1]))
