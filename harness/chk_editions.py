"""Check C18 (year and edition guesses are sound; disambiguation only removes): Editions.tla.
 (A) TLC model-checks Editions.tla: every candidate configuration (<= 2 exact, <= 2 variation
     editions with every open/closed date range over a small year domain), every year on both sides
     of every boundary and of the accepted range, both year paths: YearSound, GuessSound.
 (B)+(C) every ambiguous reporter string of the installed reporters-db (thorough: every reporter
     string) x boundary years of its candidate editions and of the accepted range x four year
     positions is extracted with and without remove_ambiguous; Trace_Editions.tla (TLC) judges the
     recorded citations and recomputes every guess with the model.
"""
import datetime
import random
import sys

import gendocs
import vlib
from vlib import Evidence, MachineryError, Verdict, run_tlc, tlc_must_pass, tlc_judge

TEMPLATES = ["Foo v. Bar, 1 {R} 1 ({Y}).", "Foo v. Bar, 1 {R} 1 (Cal. {Y}).", "Foo v. Bar, 1 {R} 1 [{Y}].",
             "Foo v. Bar ({Y}) 1 {R} 1.", "See 1 {R} 1, 2 ({Y}) (holding x); 1 {R} at 3.",
             "Foo v. Bar, 1 {R} 1, 5 U.S. 137 ({Y})."]
EXTRA_DOCS = ["Foo v. Bar, 1 U.S. 1 (1982). Then Bar at 12, 3 Rob. 5.", "Foo v. Bar, 1 U.S. 1 (1982). Bar at 12, 3 Rob. 5 (1850); Bar at 14.",
              "1 Wash. 1 (1870)", "1 Wash. 1 (1890); 2 Wash. 2 (1800)", "3 Rob. 5; 4 Johns. 5 (N.Y. 1809); 2 Hill 3 (1842)",
              "Foo v. Bar (2100) 1 U.S. 1", "Foo v. Bar (1599) 1 Cal. 1, 2 P. 2", "1 U.S. 1 (1999). ... 2 F.2d 2 (2005)"]


def main(pid):
    thorough = vlib.tier() == "thorough"
    ev, vd = Evidence(pid), Verdict(pid)
    rnd = random.Random(vlib.seed())
    today = datetime.date.today().year
    r = run_tlc("MC_Editions", "MC_Editions_thorough.cfg" if thorough else "MC_Editions_quick.cfg", timeout=3000)
    tlc_must_pass(r, "MC_Editions")
    ev.add_tlc("MC_Editions", r, "Today=5 MinYear=2, 4 edition ids, every bound pattern")
    strings = vlib.impl_run("drv_extract", "edition_strings", {})
    amb = [s for s in strings if len(s["eds"]) > 1]
    single = [s for s in strings if len(s["eds"]) == 1]
    rnd.shuffle(single)
    chosen = amb + (single if thorough else single[:250])
    texts = []
    for s in chosen:
        ys = {1599, 1600, today, today + 1, today + 2}
        for a, b in s["eds"].values():
            for y in (a, b):
                if y != -1:
                    ys.update({y - 1, y, y + 1})
        ys = sorted(ys)
        if len(s["eds"]) == 1 and not thorough:
            ys = ys[:3] + ys[-3:]
        for y in ys:
            for ti, tpl in enumerate(TEMPLATES):
                if len(s["eds"]) == 1 and ti > 3:
                    continue
                texts.append(tpl.replace("{R}", s["string"]).replace("{Y}", str(y)))
        texts.append(f"Foo v. Bar, 1 {s['string']} 1.")
    # two year positions at once: a year before a parallel group and a year after it (each in / out of range)
    pair_years = [1599, 1600, 1990, today + 1, today + 2, 2100]
    for y1 in pair_years:
        for y2 in pair_years:
            texts.append(f"Foo v. Bar ({y1}) 1 Cal.3d 1, 2 Cal.Rptr. 3 ({y2})")
            texts.append(f"Foo v. Bar ({y1}) 1 Cal.3d 1, 2 Cal.Rptr. 3 (Cal. {y2}) (holding x).")
            texts.append(f"Foo v. Bar ({y1}) 1 Cal.3d 1, 2 Cal.Rptr. 3, 4 P.2d 5 [{y2}]")
    for s_ in amb[:: (1 if thorough else 3)]:
        for y1, y2 in ((1599, 1990), (2100, 1850), (1990, 2100), (today + 2, 1900), (1850, 1599)):
            texts.append(f"Foo v. Bar ({y1}) 1 {s_['string']} 1, 5 U.S. 137 ({y2}).")
            texts.append(f"Foo v. Bar ({y1}) 5 U.S. 137, 1 {s_['string']} 1 ({y2}).")
    docs = list(gendocs.pairs())
    rnd.shuffle(docs)
    texts += EXTRA_DOCS + docs[: (4000 if thorough else 800)]
    texts = list(dict.fromkeys(texts))
    obs = vlib.impl_map("drv_extract", "run_editions", [{"text": t} for t in texts])
    if any(o["today"] != today for o in obs):
        raise MachineryError("date changed during the run")
    cfg = vlib.WORK / "Trace_Editions_today.cfg"
    cfg.write_text((vlib.SPEC / "Trace_Editions.cfg").read_text().replace("Today = 2026", f"Today = {today}"))
    fails, drifts = tlc_judge("Trace_Editions", str(cfg), obs, ev, "texts", chunk=12000)
    cfg.unlink(missing_ok=True)
    found = sum(1 for o in obs if o["def"])
    for ix, cl in fails:
        if cl.startswith("C18"):
            o = obs[ix]
            bad = [(c["cls"], c["year"], c["myear4"], c["exact"], c["var"], c["guess"]) for c in o["def"] if c["res"]][:4]
            vd.violation(cl, {"text": o["text"], "default": bad, "remove_ambiguous": [(c["cls"], c["s"], c["e"]) for c in o["ra"]],
                              "eds": o["eds"]}, {"clause": cl, "n_cites": len(o["def"])},
                         judge=vlib.J("Trace_Editions", "Trace_Editions.cfg", o), rerun=vlib.R("drv_extract", "run_editions", {"text": texts[ix]}))
    for ix, _ in drifts:
        vd.spec_drift("Editions", f"text {obs[ix]['text']!r}")
    ev.sample({"text": obs[0]["text"], "citations": [(c["cls"], c["year"], c["guess"]) for c in obs[0]["def"]]})
    ev.cov["traces_validated_against_impl"] = len(obs)
    ev.cov["evaluations"] = len(obs)
    ev.cov["distinct_nontrivial"] = found
    ev.cov["rule"] = ("texts = reporter string x boundary year x year position (6 templates); non-trivial = at least one citation extracted; "
                      "all %d ambiguous strings of the database, %d single-edition strings" % (len(amb), len(chosen) - len(amb)))
    ev.cov["ambiguous_strings"] = len(amb)
    ev.cov["exhaustive"] = thorough
    ev.assumptions = ["candidate editions are those the citation reports (their agreement with the database is C01)",
                      "a citation's year is 'its own' unless its full span starts where the preceding full case citation's does",
                      "TLC, Json community module"]
    ev.write(vd)
    return vd.exit_code()


if __name__ == "__main__":
    vlib.main_wrapper(sys.argv[1], lambda: main(sys.argv[1]))
