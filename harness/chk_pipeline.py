"""Check C04 (extraction, resolution and annotation never raise on any string): Eyecite.tla.
 (A) Totality is the invariant `err = "none"` / NoRaise of the component models (Resolve, SpanUpdater,
     Annotate: checked by TLC in C06-C11) and the session specification Eyecite.tla has no action for
     a raised call; TLC model-checks Eyecite.tla's session guarantees.
 (C) recorded sessions (get_citations x {reference, Aho-Corasick, Hyperscan} x {plain,
     remove_ambiguous} -> resolve_citations -> annotate_citations with the returned spans x
     {unchecked, skip, wrap}) on hostile documents are validated by TLC against Eyecite.tla: a
     session is accepted iff every event is consumed; a raised call is a VIOLATION, any other
     rejection is reported as SPEC-DRIFT (it concerns C02 / C03 / C06, which have their own checks).
"""
import os
import random
import re
import shutil
import sys
import time

import gendocs
import vlib
from vlib import Evidence, MachineryError, Verdict, run_tlc, tlc_must_pass


def main(pid):
    thorough = vlib.tier() == "thorough"
    ev, vd = Evidence(pid), Verdict(pid)
    rnd = random.Random(vlib.seed())
    r = run_tlc("Eyecite", "MC_Eyecite.cfg", timeout=900)
    tlc_must_pass(r, "MC_Eyecite")
    ev.add_tlc("MC_Eyecite", r, "MaxLen=4 MaxCites=2")
    # hostile documents: every ordered pair of hostile fragments with the closest separators
    # (bounded exhaustive over placements), citation fragments x hostile fragments, seeded splices
    hp = [a + s + b for a in gendocs.HOSTILE for b in gendocs.HOSTILE for s in ("", " ")]
    mix = [a + s + b for a in gendocs.FRAGMENTS[:: (1 if thorough else 3)] for b in gendocs.HOSTILE for s in (" ", "")]
    mix += [b + s + a for a in gendocs.FRAGMENTS[:: (1 if thorough else 3)] for b in gendocs.HOSTILE for s in (" ",)]
    rndm = list(gendocs.random_docs(vlib.seed(), 6000 if thorough else 1500, kmin=2, kmax=7, hostile=True))
    mut = [gendocs.mutate(d, rnd, rnd.randint(1, 4)) for d in rndm[:: 3]]
    docs = list(dict.fromkeys(["", " ", "1 Minn. L. Rev. ___. Id. at 5.", "42 U.S.C. § 1983"] + hp + mix + rndm + mut))
    if not thorough:
        keep = docs[:5]
        rest = docs[5:]
        rnd.shuffle(rest)
        docs = keep + rest[:7000]
    items = [{"text": d, "toks": ["aho", "hs"] + (["ref"] if i % 20 == 0 else [])} for i, d in enumerate(docs)]
    hs_dir = vlib.WORK / f"hs-{os.getpid()}-{time.time_ns()}"
    hs_dir.mkdir(parents=True)
    env = {"VERIF_HS_CACHE": str(hs_dir)}
    vlib.impl_run("drv_extract", "run_pipeline", {"items": [{"text": "1 U.S. 1", "toks": ["hs"]}]}, env=env)
    obs = vlib.impl_map("drv_extract", "run_pipeline", items, env=env)
    # markup sessions (Eyecite.tla's clean / merge actions): clean_text -> get_citations in markup mode ->
    # two-step merge -> resolve a prefix -> annotate against the marked-up source
    mdocs = [d for d in list(gendocs.pairs())[:: (3 if thorough else 9)] + mix[:: (4 if thorough else 12)] + rndm[:: 6] if "\ud800" not in d]
    mitems = [{"markup": gendocs.to_markup(d, rnd), "steps": rnd.choice([["html", "all_whitespace"], ["html", "inline_whitespace"], ["html"]]),
               "tok": "hs" if i % 3 == 0 else "aho", "upto": rnd.randint(0, 6)} for i, d in enumerate(mdocs)]
    mobs = vlib.impl_map("drv_extract", "run_markup_sessions", mitems, env=env)
    docs = docs + [m["markup"] for m in mitems]
    obs = obs + mobs
    all_items = items + mitems
    ev.cov["markup_sessions"] = len(mobs)
    shutil.rmtree(hs_dir, ignore_errors=True)
    # trace validation in chunks
    import json
    total_events = calls = 0
    rejected = []
    for b in range(0, len(obs), 1500):
        part = obs[b:b + 1500]
        tf = vlib.WORK / f"trace-{os.getpid()}-{time.time_ns()}.json"
        tf.write_text(json.dumps(part))
        try:
            r = run_tlc("Trace_Eyecite", "Trace_Eyecite.cfg", env={"TRACE_FILE": str(tf)}, timeout=1700)
        finally:
            tf.unlink(missing_ok=True)
        tlc_must_pass(r, "Trace_Eyecite")
        ev.add_tlc(f"Trace_Eyecite[#{b // 1500}]", r, f"{len(part)} recorded sessions")
        ev.add_hits(r.out)
        done, at, failed = set(), {}, set()
        for line in r.out.splitlines():
            if line.startswith('<<"DONE", '):
                done.add(int(line[10:-2]))
            elif line.startswith('<<"AT", '):
                m = re.match(r'^<<"AT", (\d+), (\d+)>>$', line)
                at[int(m.group(1))] = max(at.get(int(m.group(1)), 0), int(m.group(2)))
            elif line.startswith('<<"FAIL", '):
                failed.add(int(re.match(r'^<<"FAIL", (\d+)', line).group(1)))
        if len(at) != len(part):
            raise MachineryError(f"Trace_Eyecite: {len(at)} of {len(part)} sessions started")
        for t in range(1, len(part) + 1):
            evs = part[t - 1]["events"]
            total_events += len(evs)
            calls += sum(1 for e in evs if e["ev"] != "reset")
            if t in done:
                continue
            l = at[t]
            e = evs[l - 1] if l <= len(evs) else {}
            rejected.append((b + t - 1, l, e))
            if (e.get("raised") or "") == "" and t in failed:
                raise MachineryError("FAIL reported for an event that did not raise")
    for ix, l, e in rejected:
        text = docs[ix]
        prev = [x for x in obs[ix]["events"][:l] if x["ev"] == "get_citations"]
        cfgd = prev[-1] if prev else {}
        if e.get("raised"):
            exc = e["raised"].split(":")[0]
            vd.violation("C04.noraise", {"text": text, "call": e["ev"], "tokenizer": cfgd.get("tok"), "remove_ambiguous": cfgd.get("ra"),
                                         "mode": e.get("mode"), "raised": e["raised"]},
                         {"clause": "C04.noraise", "call": e["ev"], "exception": exc, "tokenizer": cfgd.get("tok")},
                         judge=vlib.J("Trace_Eyecite", "Trace_Eyecite.cfg", obs[ix]),
                         rerun=(vlib.R("drv_extract", "run_markup_sessions", all_items[ix], hs_cache=True) if "markup" in all_items[ix]
                                else vlib.R("drv_extract", "run_pipeline", all_items[ix], hs_cache=True)))
        else:
            vd.spec_drift("Eyecite", f"session rejected at event {l} ({e.get('ev')}) text={text[:80]!r} event={str(e)[:200]}")
    ev.sample({"text": docs[7], "events": [(e["ev"], e.get("tok"), e.get("mode"), e["raised"]) for e in obs[7]["events"][:6]]})
    ev.cov["traces_validated_against_impl"] = len(obs)
    ev.cov["evaluations"] = calls
    ev.cov["distinct_nontrivial"] = len(docs)
    ev.cov["events"] = total_events
    ev.cov["sessions_rejected"] = len(rejected)
    ev.cov["rule"] = ("one session per distinct hostile document: every ordered pair of hostile fragments, citation x hostile fragment pairs, "
                      "seeded hostile documents and character mutations; evaluations = public calls made (2-3 tokenizers x 2 settings x (1 + 1 + 3))")
    ev.assumptions = ["'every Python string' is reached through the hostile closure of the fragment grammar (NUL, lone surrogate, NBSP, non-ASCII digits, "
                      "lone brackets, 40-digit runs, section signs glued to words, tabs / line breaks in names, ...), bounded in depth",
                      "reference tokenizer on 1/20 of the documents", "TLC, Json community module"]
    ev.write(vd)
    return vd.exit_code()


if __name__ == "__main__":
    vlib.main_wrapper(sys.argv[1], lambda: main(sys.argv[1]))
