"""Checks C02 (offsets index the text) and C17 (metadata comes from the citation's own extent).
 (A) TLC model-checks Extract.tla: the offset arithmetic of the extractors (span end of short /
     supra / id forms, full-span end with parenthetical trimming, backward party-name scan,
     pre-citation antecedent) with nondeterministic matcher results over every small word list:
     SpanLaws.
 (C) Trace_Extract.tla (TLC) judges the citations returned for citation-dense generated documents
     (all ordered fragment pairs x separators, seeded longer and hostile documents, character-level
     mutations), in plain and markup mode, with the three shipped tokenizers: bounds, slice starts
     with the matched text, pin-cite span / text, every textual metadata value inside the own
     extent (witness offsets supplied by the harness, verified by TLC).
"""
import os
import random
import re
import shutil
import sys
import time

import gendocs
import vlib
from vlib import Evidence, MachineryError, Verdict, run_tlc, tlc_must_pass, tlc_judge

MY = {"C02": {"C02.bounds", "C02.slice", "C02.pinspan", "C02.pintext"}, "C17": {"C17.ownextent"}}
EXTRA = [
    "Foo, 1 U.S. at 5 because", "Foo\tv. Bar, 1 U.S. 1", "Foo\nv. Bar, 1 U.S. 1", "1 U.S. 1 (1999). ... 2 F.2d 2 (2005)",
    "as held in 1 U.S. 1 (1990) and in 2 U.S. 2 (1995)", "Nobelman at 332, 113 S.Ct. 2106", "Bar, supra note 12, at 45",
    "Doe, et al., v. Roe, 1 U.S. 1, 5 (1990) (holding x)", "Smith, Inc., v. Jones, 1 U.S. 1, 2 S. Ct. 2 (1990)",
    "Roe v. Wade, 410 U.S. 113, and Lochner v. New York, 198 U.S. 45 (1905)",
    "Foo v. Bar, 1 U.S. 1 (1999) (holding x (quoting y)) (second) and then (later) text",
    "See Foo v. Bar, 1 U.S. 1, 5 (1999) (holding x). Other (text) here.",
    # numbers longer than the matcher window (MAX_MATCH_CHARS = 300) in every number position of a short / id / supra form
    "Foo, 1 U.S. at " + "7" * 400 + " because", "1 T.C. at " + "7" * 5000, "Foo, 1 U.S., at " + "7" * 301 + ", " + "8" * 400 + " (holding x)",
    "Id. at " + "3" * 400 + ".", "Bar, supra, at " + "4" * 400 + " (quoting y)", "1 U.S. 1, " + "5" * 400 + " (1999)",
    "Foo v. Bar, 1 U.S. " + "6" * 400 + " (1999). Id. at 7.",
]


# an antecedent-style citation after more than MAX_MATCH_CHARS of uninterrupted prose (the backward window is cut)
EXTRA += [gendocs.LONG_PROSE + sep + f for f in gendocs.ANTECEDENT_STYLE for sep in (" ", " the case of ")]

to_markup = gendocs.to_markup


def meta_layer(ev, vd, plain, thorough):
    """Meta.tla: the VALUES of the metadata.  (A) MC_Meta: process_parenthetical as the loop the code runs, the strip
    helpers, get_year and the parallel-citation fold, exhaustively over small alphabets; (B) every finished model input
    is replayed through the real helpers.process_parenthetical / clean_pin_cite / get_year and the outputs compared;
    (C) Trace_Meta: per document one model step per citation, matcher results bound from the guarded hook events,
    every metadata value recomputed from the document at the places the events name.  Differences are SPEC-DRIFT."""
    import json
    hi = vlib.impl_run("drv_extract", "highest_year", {})
    cfgs = {}
    for name in ("MC_Meta.cfg", "MC_Meta_emit.cfg"):
        c = (vlib.SPEC / name).read_text().replace("HighestYear = 2027", f"HighestYear = {hi}")
        if thorough:
            c = c.replace("MaxLen = 6", "MaxLen = 8").replace("MaxCites = 4", "MaxCites = 6")
        cfgs[name] = vlib.WORK / f"cfg-{os.getpid()}-{time.time_ns()}-{name}"
        cfgs[name].write_text(c)
    r = run_tlc("MC_Meta", cfgs["MC_Meta.cfg"], timeout=1500)
    tlc_must_pass(r, "MC_Meta")
    ev.add_tlc("MC_Meta", r, f"texts <= {8 if thorough else 6} characters, citation chains <= {6 if thorough else 4}, HighestYear = {hi}")
    r = run_tlc("MC_Meta", cfgs["MC_Meta_emit.cfg"], timeout=1500)
    tlc_must_pass(r, "MC_Meta_emit")
    emitted = {}
    for line in r.out.splitlines():
        if line.startswith('<<"EMIT", '):
            rec = json.loads(json.loads(line[len('<<"EMIT", '):-2]))
            emitted[(rec["mode"], tuple(rec["txt"]))] = rec
    recs = list(emitted.values())
    if len(recs) < 1000:
        raise MachineryError(f"MC_Meta_emit printed only {len(recs)} behaviours")
    real = vlib.impl_map("drv_extract", "run_meta_funcs", [{"mode": x["mode"], "txt": x["txt"]} for x in recs])
    nd = 0
    for x, y in zip(recs, real):
        want = x["out"][0] if x["mode"] == "year" else x["out"]
        if y["out"] != want:
            nd += 1
            if nd <= 5:
                vd.spec_drift("Meta", f"{x['mode']} on {''.join(map(chr, x['txt']))!r}: model {want} code {y['out']}")
    ev.cov["meta_model_behaviours_replayed"] = len(recs)
    ev.cov["meta_model_behaviours_differing"] = nd
    mdocs = plain[:: (2 if thorough else 6)]
    mobs = vlib.impl_map("drv_extract", "run_meta", [{"text": d} for d in mdocs], env={vlib.GUARD: "1"})
    if mobs and all(o.get("hooks") for o in mobs):
        _, drifts = tlc_judge("Trace_Meta", "Trace_Meta.cfg", mobs, ev, "meta", chunk=1500,
                              wrap=lambda part: {"highest": hi, "traces": part})
        for ix, rest in drifts[:20]:
            vd.spec_drift("Meta", f"document {mdocs[ix][:90]!r}: citation / field {rest[:80]}")
        ev.cov["meta_citations_recomputed"] = sum(1 for o in mobs for c in o["cites"] if c["judge"])
        ev.cov["meta_citations_outside_model_domain"] = sum(1 for o in mobs for c in o["cites"] if not c["judge"])
        ev.cov["meta_documents_skipped_non_ascii_digit"] = sum(1 for o in mobs if o["skipped"])
        ev.cov["meta_drift_lines"] = len(drifts)
    else:
        ev.cov["meta_citations_recomputed"] = 0
        ev.cov["meta_note"] = "hook events unavailable (eyecite._verif missing or guard off): Trace_Meta layer skipped"


def main(pid):
    thorough = vlib.tier() == "thorough"
    ev, vd = Evidence(pid), Verdict(pid)
    mine = MY[pid]
    rnd = random.Random(vlib.seed())
    r = run_tlc("MC_Extract", "MC_Extract_thorough.cfg" if thorough else "MC_Extract_quick.cfg", timeout=3000)
    tlc_must_pass(r, "MC_Extract")
    ev.add_tlc("MC_Extract", r, "scaled constants BACKWARD_SEEK=3, word lists <= 5")
    r = run_tlc("MC_Extract", "MC_Extract_longpage.cfg", timeout=900)
    tlc_must_pass(r, "MC_Extract_longpage")
    ev.add_tlc("MC_Extract_longpage", r, "MAX_MATCH_CHARS scaled to 1: the window is cut inside the page of a short citation")
    docs = list(gendocs.pairs())
    if not thorough:
        rnd.shuffle(docs)
        docs = docs[:5000]
    docs = EXTRA + docs + list(gendocs.random_docs(vlib.seed(), 10000 if thorough else 2500, kmin=3, kmax=8))
    hostile = list(gendocs.random_docs(vlib.seed() + 1, 6000 if thorough else 1500, hostile=True))
    mut = [gendocs.mutate(d, rnd, rnd.randint(1, 3)) for d in docs[:: (2 if thorough else 6)]]
    plain = [d for d in dict.fromkeys(docs + hostile + mut) if d.strip() and "\ud800" not in d]
    items = [{"text": d, "tok": "aho"} for d in plain]
    items += [{"text": d, "tok": "hs"} for d in plain[:: (1 if thorough else 3)]]
    items += [{"text": d, "tok": "ref"} for d in plain[:: (6 if thorough else 25)]]
    for d in docs[:: (2 if thorough else 5)]:
        items.append({"markup": to_markup(d, rnd), "steps": rnd.choice([["html", "all_whitespace"], ["html", "inline_whitespace"], ["html"]]), "tok": "aho"})
    # configurations: remove_ambiguous=True; markup documents with emphasised (also multi-word, line-wrapped) party names
    # under step lists that have `html` first, last or in the middle
    import chk_markup
    items += [{"text": d, "tok": "aho", "ra": True} for d in plain[:: (3 if thorough else 8)]]
    import datetime
    amb = gendocs.ambiguous_docs(vlib.impl_run("drv_extract", "db_strings", {}), datetime.date.today().year)
    items += [{"text": d, "tok": "aho", "ra": ra} for d in amb for ra in (True, False)]
    ev.cov["ambiguous_reporter_documents"] = len(amb)
    for i, m in enumerate(chk_markup.documents(rnd, 1200 if thorough else 300)):
        items.append({"markup": m, "steps": chk_markup.STEPS[i % len(chk_markup.STEPS)], "tok": "aho", "ra": i % 5 == 0})
    hs_dir = vlib.WORK / f"hs-{os.getpid()}-{time.time_ns()}"
    hs_dir.mkdir(parents=True)
    env = {"VERIF_HS_CACHE": str(hs_dir)}
    vlib.impl_run("drv_extract", "run_offsets", {"items": [{"text": "1 U.S. 1", "tok": "hs"}]}, env=env)
    rnd.shuffle(items)
    obs = vlib.impl_map("drv_extract", "run_offsets", items, env=env)
    shutil.rmtree(hs_dir, ignore_errors=True)
    fails, _ = tlc_judge("Trace_Extract", "Trace_Extract.cfg", obs, ev, "docs", chunk=5000)
    ncite = sum(len(o["cites"]) for o in obs)
    for ix, cl in fails:
        if cl in mine:
            it, o = items[ix], obs[ix]
            text = "".join(map(chr, o["text"]))
            vd.violation(cl, {"input": it, "text": text,
                              "cites": [{"cls": c["cls"], "span": [c["s"], c["e"]], "full": [c["fs"], c["fe"]], "pinspan": [c["ps"], c["pe"]],
                                         "matched": "".join(map(chr, c["mt"])), "pin": "".join(map(chr, c["pin"])), "poff": c["poff"],
                                         "meta": [(w["f"], "".join(map(chr, w["v"])), w["off"]) for w in c["w"]]} for c in o["cites"]]},
                         {"clause": cl, "tok": it.get("tok"), "markup": "markup" in it,
                          "shape": re.sub(r"[A-Za-z]+", "w", re.sub(r"\d+", "9", text))[:50]},
                         judge=vlib.J("Trace_Extract", "Trace_Extract.cfg", o),
                         rerun=vlib.R("drv_extract", "run_offsets", it, hs_cache=True))
    # step-level conformance of Extract.tla: match_on_tokens events (guarded hook) bind the model's
    # matcher results, TLC recomputes every span and every window length
    sdocs = [d for d in plain if "\x00" not in d][:: (2 if thorough else 5)]
    sobs = vlib.impl_map("drv_extract", "run_steps", [{"text": d} for d in sdocs], env={vlib.GUARD: "1"})
    if sobs and all(o.get("hooks") for o in sobs):
        straces = [{"cites": o["cites"]} for o in sobs]
        _, drifts = tlc_judge("Trace_ExtractSteps", "Trace_ExtractSteps.cfg", straces, ev, "steps", chunk=1500)
        for ix, rest in drifts:
            vd.spec_drift("Extract", f"document {sdocs[ix][:90]!r}: {rest[:300]}")
        ev.cov["step_level_citations_recomputed"] = sum(len(o["cites"]) for o in sobs)
        ev.cov["step_level_calls_raised_with_guard_on"] = sum(1 for o in sobs if o["raised"])
    else:
        ev.cov["step_level_citations_recomputed"] = 0
        ev.cov["step_level_note"] = "hook events unavailable (eyecite._verif missing or guard off): implementation-model layer skipped"
    meta_layer(ev, vd, [d for d in plain if "\x00" not in d], thorough)
    ev.sample({"text": "".join(map(chr, obs[0]["text"])), "cites": [(c["cls"], c["s"], c["e"], c["fs"], c["fe"]) for c in obs[0]["cites"]]})
    ev.cov["traces_validated_against_impl"] = len(obs)
    ev.cov["evaluations"] = len(obs)
    ev.cov["distinct_nontrivial"] = sum(1 for o in obs if o["cites"])
    ev.cov["citations_judged"] = ncite
    ev.cov["metadata_values_judged"] = sum(len(c["w"]) for o in obs for c in o["cites"])
    ev.cov["calls_that_raised_not_judged_here"] = sum(1 for o in obs if o["raised"])
    ev.cov["rule"] = ("documents: fragment pairs x separators, seeded longer / hostile documents, character mutations; x tokenizers "
                      "(Aho-Corasick all, Hyperscan and reference subsamples) + markup renderings; non-trivial = at least one citation returned")
    ev.assumptions = ["'every string' is reached through the hostile closure of the fragment grammar, bounded in depth",
                      "witness offsets are searched by the harness and verified by TLC; a missing witness fails the clause",
                      "calls that raise are judged under C04"]
    ev.write(vd)
    return vd.exit_code()


if __name__ == "__main__":
    vlib.main_wrapper(sys.argv[1], lambda: main(sys.argv[1]))
