#!/usr/bin/env python3
"""Demonstrates that the trace specifications are bound to the recorded data: a correct recording is
accepted, the same recording with ONE field corrupted (or one event dropped) is rejected."""
import copy, json, os, sys
sys.path.insert(0, "/verif/harness")
import vlib
from vlib import Evidence, tlc_judge
ev = Evidence("binding-demo")
out = {}
# Extract step-level: corrupt the logged match end of one event / drop the forward event
obs = vlib.impl_map("drv_extract", "run_steps", [{"text": "Foo v. Bar, 1 U.S. 1, 5 (1999) (holding x). Bar, 1 U.S., at 7. Id. at 9; Bar, supra, at 3."}], env={vlib.GUARD: "1"})
good = [{"cites": obs[0]["cites"]}]
bad1 = copy.deepcopy(good); bad1[0]["cites"][0]["fwd"]["mend"] += 1
bad2 = copy.deepcopy(good); bad2[0]["cites"][1]["back"]["present"] = False
bad3 = copy.deepcopy(good); bad3[0]["cites"][0]["words"][2]["n"] += 1
for name, tr in (("extract: as recorded", good), ("extract: match end +1", bad1), ("extract: antecedent event dropped", bad2), ("extract: one token length +1", bad3)):
    _, drifts = tlc_judge("Trace_ExtractSteps", "Trace_ExtractSteps.cfg", tr, ev, name)
    out[name] = "rejected (DRIFT)" if drifts else "accepted"
# Resolve: corrupt one recorded group membership
alpha = [{"k": "fc", "rv": "r1", "pg": 10, "pl": ["a"], "df": ["b"], "ag": "-", "nm": [], "pin": -1, "id": ""},
         {"k": "su", "rv": "", "pg": -2, "pl": [], "df": [], "ag": "b", "nm": [], "pin": -1, "id": ""},
         {"k": "id", "rv": "", "pg": -2, "pl": [], "df": [], "ag": "-", "nm": [], "pin": 12, "id": ""}]
o = vlib.impl_run("drv_resolve", "run", {"items": [[1, 2, 3]], "common": {"alphabet": alpha, "prefixes": True}})[0]
def resolve_trace(groups):
    return {"alpha": alpha, "traces": [{"p": [1, 2, 3], "g": groups, "r": "", "pre": o["prefix"]}]}
import re, time
for name, groups in (("resolve: as recorded", o["groups"]), ("resolve: id. moved out of its group", [{"key": 1, "m": [1, 2]}])):
    tf = vlib.WORK / f"bd-{os.getpid()}-{time.time_ns()}.json"; vlib.WORK.mkdir(exist_ok=True)
    tf.write_text(json.dumps(resolve_trace(groups)))
    r = vlib.run_tlc("Trace_Resolve", "Trace_Resolve.cfg", env={"TRACE_FILE": str(tf)}); tf.unlink()
    out[name] = "rejected (" + ", ".join(sorted(set(re.findall(r'"(C\d\d\.\w+)"', r.out))) or ["DRIFT"]) + ")" if ('"FAIL"' in r.out or '"DRIFT"' in r.out) else "accepted"
# Eyecite sessions (markup flow): the merge must keep every non-reference citation; cleaning never lengthens
import random
sess = vlib.impl_run("drv_extract", "run_markup_sessions", {"items": [{"markup": "<p>See <i>Foo</i> v. <i>Bar</i>, 1 U.S. 1 (1999). Later, <i>Bar</i> at 12 and 2 F.2d 2.</p>",
                                                                        "steps": ["html", "all_whitespace"], "tok": "aho", "upto": 2}]})
s_good = copy.deepcopy(sess)
s_bad1 = copy.deepcopy(sess)
mi = next(i for i, e in enumerate(s_bad1[0]["events"]) if e["ev"] == "merge")
ki = next(i for i, c in enumerate(s_bad1[0]["events"][mi]["cites"]) if c["kind"] != "ref")
del s_bad1[0]["events"][mi]["cites"][ki]
s_bad2 = copy.deepcopy(sess); s_bad2[0]["events"][0]["n_after"] = s_bad2[0]["n"] + 1
s_bad3 = copy.deepcopy(sess)
ri = next(i for i, e in enumerate(s_bad3[0]["events"]) if e["ev"] == "resolve")
s_bad3[0]["events"][ri]["groups"] = [[2, 1]]
for name, tr in (("session: as recorded", s_good), ("session: merge lost a non-reference citation", s_bad1),
                 ("session: cleaning lengthened the text", s_bad2), ("session: resolution group out of order", s_bad3)):
    tf = vlib.WORK / f"bd-{os.getpid()}-{time.time_ns()}.json"; vlib.WORK.mkdir(exist_ok=True)
    tf.write_text(json.dumps(tr))
    r = vlib.run_tlc("Trace_Eyecite", "Trace_Eyecite.cfg", env={"TRACE_FILE": str(tf)}); tf.unlink()
    out[name] = "accepted" if '<<"DONE", 1>>' in r.out else "rejected (session not consumed: stops at event %s)" % max([int(x) for x in re.findall(r'<<"AT", 1, (\d+)>>', r.out)] or [0])
# Meta (values of the metadata): corrupt one observed value / one logged group end / the observation of the citation
# a parallel citation inherits from
mdoc = "Foo v. Bar, 1 U.S. 1, 5 (1999) (holding x), 2 S. Ct. 3. Baz, 4 F.2d 6, 7 (2d Cir. 1950). Id. at 9 (quoting y)."
mobs = vlib.impl_map("drv_extract", "run_meta", [{"text": mdoc}], env={vlib.GUARD: "1"})
hi = vlib.impl_run("drv_extract", "highest_year", {})
m_good = copy.deepcopy(mobs)
m_bad1 = copy.deepcopy(mobs); m_bad1[0]["cites"][0]["obs"]["paren"] = m_bad1[0]["cites"][0]["obs"]["paren"] + [33]
m_bad2 = copy.deepcopy(mobs); m_bad2[0]["cites"][0]["fwd"]["g"]["year"][1] -= 1
m_bad3 = copy.deepcopy(mobs); m_bad3[0]["cites"][0]["obs"]["defendant"] = [90, 101, 100]      # what the parallel citation inherits from
mobs2 = vlib.impl_map("drv_extract", "run_meta", [{"text": "Nobelman at 332, 113 S.Ct. 2106 (1993)."}], env={vlib.GUARD: "1"})
m_bad4 = copy.deepcopy(mobs2); m_bad4[0]["cites"][0]["back"]["present"] = False                 # add_pre_citation "was not called"
for name, tr in (("meta: as recorded", m_good), ("meta: one character added to an observed parenthetical", m_bad1),
                 ("meta: logged end of the year group -1", m_bad2), ("meta: observed defendant of the first of two parallel citations changed", m_bad3),
                 ("meta: pre-citation event dropped", m_bad4)):
    _, drifts = tlc_judge("Trace_Meta", "Trace_Meta.cfg", tr, ev, name, wrap=lambda part: {"highest": hi, "traces": part})
    out[name] = ("rejected (DRIFT at citation / field" + "; ".join(sorted({d[1] for d in drifts})) + ")") if drifts else "accepted"
print(json.dumps(out, indent=1))
json.dump(out, open("/verif/selftest/binding_demo.json", "w"), indent=1)
