#!/bin/sh
# usage: verify_seed4.sh Cnn K  -- confirms round-10 seeded change /tmp/seed10/Cnn/mK in a scratch worktree:
#  clean tree: demo exits 0; with patch: existing suite passes and demo exits 1.  Copies to /verif/seeded/Cnn-r10mK/
ID=$1; K=$2; S=/tmp/seed10/$ID/m$K; W=/tmp/wt/verify10-$ID-$K
[ -f $S/patch.diff ] || { echo "$ID m$K: no diff"; exit 2; }
git -C /repo worktree add --detach $W HEAD -q 2>/dev/null || { echo "worktree failed"; exit 2; }
cd $W
/venv/bin/python $S/demo.py > $S/clean.out 2>&1; c0=$?
git apply $S/patch.diff || { echo "$ID m$K: patch does not apply on HEAD"; cd /; git -C /repo worktree remove --force $W; exit 2; }
/venv/bin/python -m pytest -q -p no:cacheprovider --timeout=900 > $S/tests.out 2>&1; t=$?
/venv/bin/python $S/demo.py > $S/mut.out 2>&1; c1=$?
cd /; git -C /repo worktree remove --force $W
tail1=$(tail -1 $S/tests.out)
echo "$ID m$K: clean_demo=$c0 tests_rc=$t mutant_demo=$c1 [$tail1]"
if [ $c0 = 0 ] && [ $t = 0 ] && [ $c1 = 1 ]; then
  D=/verif/seeded/$ID-r10m$K; mkdir -p $D; cp $S/patch.diff $D/patch.diff; cp $S/demo.py $D/demo.py
  /venv/bin/python - <<PY
import json,re
summ=re.sub(r"\s+"," ",open("$S/summary.txt").read()).strip()
files=sorted(set(re.findall(r"^diff --git a/(\S+)", open("$S/patch.diff").read(), flags=re.M)))
m={"property":"$ID","summary":summ,"files":files,"breaks":"$ID","round":10,
 "verified":{"head":"$(git -C /repo rev-parse --short HEAD)","clean_demo_exit":$c0,"suite_with_patch":"$tail1","demo_with_patch_exit":$c1,
 "ran":"scratch worktree of /repo HEAD outside /repo and /verif: demo on clean tree; git apply patch.diff; /venv/bin/python -m pytest -q -p no:cacheprovider --timeout=900; demo again; worktree removed"}}
json.dump(m,open("$D/meta.json","w"),indent=1)
PY
  echo "  kept -> $D"
fi
