#!/bin/sh
# usage: try_mutant.sh <patch.diff> <Cnn> [<Cnn> ...]   -- applies the patch to /repo, runs the quick checks, reverts
P="$1"; shift
cd /repo || exit 2
git diff --quiet || { echo "/repo not clean"; exit 2; }
git apply "$P" 2>/dev/null || git apply --3way "$P" 2>/dev/null || { echo "patch does not apply"; git reset -q; git checkout -q HEAD -- . ; exit 2; }
git reset -q
for c in "$@"; do
  ( cd /verif && ./check "$c" > /tmp/mut_$c.out 2>&1; echo "$c rc=$? $(grep -c '^VIOLATION' /tmp/mut_$c.out) violations, $(grep -c '^SPEC-DRIFT' /tmp/mut_$c.out)+ drift; $(grep -m1 '^VIOLATION' /tmp/mut_$c.out | cut -c1-160)" )
done
git -C /repo reset -q; git -C /repo checkout -q HEAD -- .
