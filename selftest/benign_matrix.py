#!/usr/bin/env python3
"""False-alarm test: apply each BENIGN change (selftest/benign/<name>/patch.diff: realistic refactorings /
optimisations / behaviour changes outside the properties, written by sub-agents that saw only the
property texts) in a scratch worktree and run the checks of the properties the touched files are
anchored in.  Expected: exit 0 for every check (SPEC-DRIFT lines are allowed: the implementation-shaped
model may no longer match; VIOLATION lines are false alarms).  Writes selftest/benign.json.
usage: benign_matrix.py [name-filter]"""
import json, os, re, subprocess, sys, time
VERIF = "/verif"
BY_FILE = {
    "eyecite/find.py": ["C01", "C02", "C03", "C04", "C05", "C17", "C18", "C19", "C15"],
    "eyecite/helpers.py": ["C01", "C02", "C03", "C04", "C05", "C17", "C18"],
    "eyecite/resolve.py": ["C04", "C05", "C06", "C07", "C08"],
    "eyecite/models.py": ["C01", "C06", "C12", "C15", "C16", "C18"],
    "eyecite/tokenizers.py": ["C04", "C12", "C13", "C14", "C15"],
    "eyecite/annotate.py": ["C04", "C09", "C10", "C11"],
    "eyecite/utils.py": ["C04", "C09", "C10", "C11", "C19"],
    "eyecite/clean.py": ["C19", "C20"],
    "eyecite/regexes.py": ["C01", "C02", "C13", "C17"],
}
flt = sys.argv[1] if len(sys.argv) > 1 else ""
out_path = f"{VERIF}/selftest/benign.json"
res = json.load(open(out_path)) if os.path.exists(out_path) else {}
for name in sorted(os.listdir(f"{VERIF}/selftest/benign")):
    if flt and flt not in name:
        continue
    patch = f"{VERIF}/selftest/benign/{name}/patch.diff"
    files = sorted(set(re.findall(r"^diff --git a/(\S+)", open(patch).read(), flags=re.M)))
    checks = sorted({c for f in files for c in BY_FILE.get(f, [])})
    wt = f"/tmp/wt/benign-{os.getpid()}"
    subprocess.run(["git", "-C", "/repo", "worktree", "add", "--detach", wt, "HEAD", "-q"], check=True)
    try:
        ok = subprocess.run(["git", "-C", wt, "apply", patch], capture_output=True).returncode == 0
        entry = {"applies": ok, "files": files, "checks": {},
                 "head": subprocess.run(["git", "-C", "/repo", "rev-parse", "--short", "HEAD"], capture_output=True, text=True).stdout.strip()}
        if ok:
            t = subprocess.run(["/venv/bin/python", "-m", "pytest", "-q", "-p", "no:cacheprovider", "--timeout=900"], cwd=wt, capture_output=True, text=True)
            entry["suite"] = t.stdout.strip().splitlines()[-1] if t.stdout.strip() else f"rc={t.returncode}"
            for p in checks:
                t0 = time.time()
                r = subprocess.run(["./check", p], cwd=VERIF, env=dict(os.environ, EYECITE_REPO=wt), capture_output=True, text=True)
                entry["checks"][p] = {"rc": r.returncode, "violation_lines": len(re.findall(r"^VIOLATION", r.stdout, flags=re.M)),
                                      "clauses": sorted(set(re.findall(r"clause=([\w.]+)", r.stdout))),
                                      "spec_drift_lines": len(re.findall(r"^SPEC-DRIFT", r.stdout, flags=re.M)),
                                      "error": (re.findall(r"^ERROR.*", r.stdout + r.stderr, flags=re.M) or [""])[0][:200],
                                      "wall_s": round(time.time() - t0)}
        res = json.load(open(out_path)) if os.path.exists(out_path) else {}     # another instance may have written meanwhile
        res[name] = entry
        json.dump(res, open(out_path, "w"), indent=1)
        print(name, entry["applies"], entry.get("suite"), {p: (c["rc"], c["clauses"], c["spec_drift_lines"]) for p, c in entry["checks"].items()}, flush=True)
    finally:
        subprocess.run(["git", "-C", "/repo", "worktree", "remove", "--force", wt])
        subprocess.run(["rm", "-rf", f"{VERIF}/.work/replays-scratch"])
