#!/bin/sh
# usage: try_scratch.sh <patch.diff> <Cnn> ...  -- like try_mutant.sh but in a scratch worktree (EYECITE_REPO); /repo untouched
P="$1"; shift
W=/tmp/wt/scratch-$$
git -C /repo worktree add --detach $W HEAD -q || exit 2
(git -C $W apply "$P" 2>/dev/null || git -C $W apply --3way "$P" 2>/dev/null) || { echo "patch does not apply"; git -C /repo worktree remove --force $W; exit 2; }
for c in "$@"; do
  ( cd /verif && EYECITE_REPO=$W ./check "$c" > /tmp/scr_$$_$c.out 2>&1; echo "$c rc=$? $(grep -c '^VIOLATION' /tmp/scr_$$_$c.out) violations; clauses: $(grep -o 'clause=[A-Za-z0-9_.]*' /tmp/scr_$$_$c.out | sort -u | tr '\n' ' ')"; rm -f /tmp/scr_$$_$c.out )
done
git -C /repo worktree remove --force $W
