#!/bin/sh
# runs every thorough tier once, printing rc and wall time (used through `vp run`)
for c in ${SWEEP:-C06 C07 C08 C20 C19 C16 C18 C01 C05 C13 C15 C14 C12 C03 C02 C17 C04 C09 C10 C11}; do
  s=$(date +%s)
  ./check $c --tier thorough > thorough_$c.out 2>&1; rc=$?
  echo "$c rc=$rc wall=$(( $(date +%s) - s ))s violations=$(grep -c '^VIOLATION' thorough_$c.out) $(grep -m1 -E 'ERROR machinery' thorough_$c.out | cut -c1-200)"
done
