#!/bin/sh
# usage: verify_seed.sh Cnn mK  -- confirms a seeded change in a scratch worktree:
#  clean tree: demo exits 0; with patch: existing suite passes and demo exits 1.  Copies to /verif/seeded/Cnn-mK/
ID=$1; M=$2; S=/tmp/seeds/$ID; W=/tmp/wt/verify-$ID-$M
[ -f $S/$M.diff ] || { echo "$ID $M: no diff"; exit 2; }
git -C /repo worktree add --detach $W HEAD -q 2>/dev/null || { echo "worktree failed"; exit 2; }
cd $W
/venv/bin/python $S/${M}_demo.py > /tmp/seeds/$ID/$M.clean.out 2>&1; c0=$?
git apply $S/$M.diff || { echo "$ID $M: patch does not apply on HEAD"; cd /; git -C /repo worktree remove --force $W; exit 2; }
/venv/bin/python -m pytest -q -p no:cacheprovider --timeout=900 > /tmp/seeds/$ID/$M.tests.out 2>&1; t=$?
/venv/bin/python $S/${M}_demo.py > /tmp/seeds/$ID/$M.mut.out 2>&1; c1=$?
cd /; git -C /repo worktree remove --force $W
tail1=$(tail -1 /tmp/seeds/$ID/$M.tests.out)
echo "$ID $M: clean_demo=$c0 tests_rc=$t mutant_demo=$c1 [$tail1]"
if [ $c0 = 0 ] && [ $t = 0 ] && [ $c1 = 1 ]; then
  D=/verif/seeded/$ID-$M; mkdir -p $D; cp $S/$M.diff $D/patch.diff; cp $S/${M}_demo.py $D/demo.py
  /venv/bin/python - <<PY
import json
m=json.load(open("$S/$M.json"))
m.update({"breaks":"$ID","verified":{"head":"$(git -C /repo rev-parse --short HEAD)","clean_demo_exit":$c0,"suite_with_patch":"$tail1","demo_with_patch_exit":$c1,
 "ran":"scratch worktree of /repo HEAD outside /repo and /verif: demo on clean tree; git apply patch.diff; /venv/bin/python -m pytest -q -p no:cacheprovider --timeout=900; demo again; worktree removed"}})
json.dump(m,open("$D/meta.json","w"),indent=1)
PY
  echo "  kept -> $D"
fi
