import json,sys,subprocess,os
pid=sys.argv[1]
for l in open('/verif/properties.jsonl'):
    p=json.loads(l)
    if p['id']==pid: break
wt=f"/tmp/wt/seed8-{pid}"
out=f"/tmp/seed8/{pid}"
os.makedirs(out,exist_ok=True)
if not os.path.exists(wt):
    subprocess.run(["git","-C","/repo","worktree","add","--detach",wt,"HEAD","-q"],check=True)
anch="\n".join(f"  - {m['name']} ({m['where']})" for m in p['anchors']['mechanism'])
print(f"""You are helping to evaluate how well a verification framework detects regressions in the Python library freelawproject/eyecite (citation extractor / resolver / annotator). You work ONLY in your own scratch git worktree of the library at {wt} (python interpreter with all dependencies: /venv/bin/python; run the test suite there with `cd {wt} && /venv/bin/python -m pytest -q -p no:cacheprovider --timeout=900`, about 20 s). Do not read or touch /verif or /repo, and do not use the network (there is none).

The semantic property under study ({pid}: {p['title']}):

\"\"\"{p['statement']}\"\"\"

Quantified over: {p['quantifier']['text']}

Code mechanisms the property rests on:
{anch}
Observable at: {'; '.join(p['anchors']['observe_at'])}

YOUR TASK: write TWO different, independent changes (m1 and m2) to the library source (files under {wt}/eyecite/ only; not tests) such that, for each change alone:
  1. the library still imports and the COMPLETE existing test suite still passes unedited (50 tests);
  2. the property above is broken for some input / history / configuration;
  3. the change looks like something a real contributor could plausibly submit (a refactoring, a performance tweak, a small feature, an edge-case "fix", a tidy-up) - not sabotage, no dead code, no special-casing of magic strings;
  4. it needs something SPECIFIC to manifest - an unusual but legal input shape, a particular multi-step sequence of calls, a specific configuration / option combination, a particular interleaving or process state, a boundary value, or two cooperating code sites that each look fine alone - NOT something ordinary use would expose at once. Avoid the first idea that comes to mind; read the code of the mechanisms above carefully and look for subtle places (boundary arithmetic, tie-breaking, ordering, caching / memoisation, truthiness vs None, off-by-one, state kept between iterations or calls, rarely taken branches). m1 and m2 should be in different mechanisms / functions where possible.

For each change k in (1, 2) write into {out}/m<k>/ :
  - patch.diff   : `git diff` of the change against the worktree HEAD (apply-able with `git apply` on a clean checkout). Make m1, save its diff, `git checkout -- .`, then make m2.
  - demo.py      : a small self-contained program run as `cd <checkout> && /venv/bin/python {out}/m<k>/demo.py` that imports eyecite from the current directory (start with `import sys, os; sys.path.insert(0, os.getcwd())`), checks the PROPERTY (as stated, not the implementation detail) on inputs that expose the change, prints what it found, and exits 0 if the property holds and 1 if it is violated. It must exit 0 on the unchanged checkout and 1 with the change applied. It must only assert what the property text states.
  - summary.txt  : what the change pretends to be, what it really breaks, which clause of the property is violated, and exactly what input shape / sequence / configuration is needed for it to manifest.

Before finishing, verify for each change yourself: clean checkout -> demo exits 0; with patch -> full test suite passes and demo exits 1. Leave the worktree clean (`git checkout -- .`; remove any files you created inside it) when you are done. Your final answer should be a short report: for each of m1 and m2 one paragraph (files touched, what is needed to manifest) and the verification results you observed.""")
