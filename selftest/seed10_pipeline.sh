#!/bin/sh
# usage: seed10_pipeline.sh Cnn  -- verify both round-8 changes of Cnn, install them, run the property's quick check on each (scratch worktree)
ID=$1
for K in 1 2; do
  /verif/selftest/verify_seed10.sh $ID $K
  if [ -d /verif/seeded/$ID-r10m$K ]; then
    /verif/selftest/try_scratch.sh /verif/seeded/$ID-r10m$K/patch.diff $ID
  fi
done
git -C /repo worktree remove --force /tmp/wt/seed10-$ID 2>/dev/null
