#!/usr/bin/env python3
"""Run every seeded change (and every reverse patch of a fix) against the check of the property it
breaks, in a scratch worktree of /repo (EYECITE_REPO), and write selftest/matrix.json.
usage: mutant_matrix.py [name-filter]"""
import json, os, re, subprocess, sys, time
VERIF = "/verif"
flt = sys.argv[1] if len(sys.argv) > 1 else ""
jobs = []
for d in sorted(os.listdir(f"{VERIF}/seeded")):
    meta = json.load(open(f"{VERIF}/seeded/{d}/meta.json"))
    jobs.append((d, f"{VERIF}/seeded/{d}/patch.diff", [meta.get("breaks") or d.split("-")[0]] + meta.get("also_check", []), meta))
REVERT_PROP = {}
for e in json.load(open(f"{VERIF}/known_findings.json"))["findings"]:
    if e.get("commit"):
        REVERT_PROP[e["commit"]] = e["property"]
for f in sorted(os.listdir(f"{VERIF}/selftest/reverts")):
    h = f[:-5]
    if h in REVERT_PROP:
        jobs.append((f"revert-{h}", f"{VERIF}/selftest/reverts/{f}", [REVERT_PROP[h]], {}))
out_path = f"{VERIF}/selftest/matrix.json"
res = json.load(open(out_path)) if os.path.exists(out_path) else {}
for name, patch, props, meta in jobs:
    if flt and flt not in name:
        continue
    wt = f"/tmp/wt/matrix-{os.getpid()}"
    subprocess.run(["git", "-C", "/repo", "worktree", "add", "--detach", wt, "HEAD", "-q"], check=True)
    try:
        ok = subprocess.run(["git", "-C", wt, "apply", patch], capture_output=True).returncode == 0 or \
             subprocess.run(["git", "-C", wt, "apply", "--3way", patch], capture_output=True).returncode == 0
        entry = {"applies": ok, "checks": {}, "head": subprocess.run(["git", "-C", "/repo", "rev-parse", "--short", "HEAD"], capture_output=True, text=True).stdout.strip()}
        if meta.get("status_after_repairs"):
            entry["note"] = meta["status_after_repairs"][:160]
        if ok:
            for p in props:
                t0 = time.time()
                env = dict(os.environ, EYECITE_REPO=wt)
                r = subprocess.run(["./check", p], cwd=VERIF, env=env, capture_output=True, text=True)
                clauses = sorted(set(re.findall(r"clause=([\w.]+)", r.stdout)))
                entry["checks"][p] = {"rc": r.returncode, "violation_lines": r.stdout.count("\nVIOLATION") + r.stdout.startswith("VIOLATION"),
                                      "clauses": clauses, "wall_s": round(time.time() - t0)}
        res = json.load(open(out_path)) if os.path.exists(out_path) else {}     # another instance may have written meanwhile
        res[name] = entry
        json.dump(res, open(out_path, "w"), indent=1)
        print(name, entry["applies"], {p: (c["rc"], c["clauses"]) for p, c in entry["checks"].items()}, flush=True)
    finally:
        subprocess.run(["git", "-C", "/repo", "worktree", "remove", "--force", wt])
        subprocess.run(["rm", "-rf", f"{VERIF}/.work/replays-scratch"])
