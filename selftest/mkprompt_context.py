import json,sys,subprocess,os
pid=sys.argv[1]
for l in open('/verif/properties.jsonl'):
    p=json.loads(l)
    if p['id']==pid: break
wt=f"/tmp/wt/seed10-{pid}"
out=f"/tmp/seed10/{pid}"
os.makedirs(out,exist_ok=True)
if not os.path.exists(wt):
    subprocess.run(["git","-C","/repo","worktree","add","--detach",wt,"HEAD","-q"],check=True)
anch="\n".join(f"  - {m['name']} ({m['where']})" for m in p['anchors']['mechanism'])
print(f"""You are helping to evaluate how well a verification framework detects regressions in the Python library freelawproject/eyecite (citation extractor / resolver / annotator). You work ONLY in your own scratch git worktree of the library at {wt} (python interpreter with all dependencies: /venv/bin/python; run the test suite there with `cd {wt} && /venv/bin/python -m pytest -q -p no:cacheprovider --timeout=900`, about 20 s). Do not read or touch /verif or /repo, and do not use the network (there is none).

The semantic property under study ({pid}: {p['title']}):

\"\"\"{p['statement']}\"\"\"

Quantified over: {p['quantifier']['text']}

Code mechanisms the property rests on:
{anch}
Observable at: {'; '.join(p['anchors']['observe_at'])}

YOUR TASK: write TWO different, independent changes (m1 and m2) to the library source (files under {wt}/eyecite/ only; not tests) such that, for each change alone:
  1. the library still imports and the COMPLETE existing test suite still passes unedited (50 tests);
  2. the property above is broken for some input / history / configuration;
  3. the change looks like something a real contributor could plausibly submit (a refactoring, a performance tweak, a small feature, an edge-case "fix", a dependency-compatibility shim, a tidy-up) - not sabotage, no dead code, no special-casing of magic strings;
  4. this round is about changes whose effect depends on CONTEXT rather than on one odd input string. m1 must be of kind (A) and m2 of kind (B) or (C):
     (A) CONFIGURATION / OPTION dependent: the property still holds with the default arguments but fails under a legal, documented non-default configuration or combination of options (a particular tokenizer, remove_ambiguous, markup mode with particular clean_steps, custom clean functions, use_dmp=False, a tag-handling mode, a custom extractor list, custom resolver callbacks, a cache directory state ...), or only for a rarely used data shape of the reporters / courts / laws / journals databases (an unusual template, an edition with unusual dates, a name that is both an edition and a variation, nominative reporters, ...);
     (B) HISTORY / STATE dependent: it fails only on a second or later call, when objects are reused between calls, when results of an earlier call are passed to a later call, when a module-level or instance-level cache / memo / lazily built structure is in a particular state, or depending on the order in which things were processed earlier in the same document (something kept from one loop iteration to the next);
     (C) TWO COOPERATING SITES in different functions or modules (ideally one of them in a file that is not the obvious home of the property) that are each harmless alone and break the property only together.
     Read the code carefully first; prefer places the existing tests do not reach at all.

For each change k in (1, 2) write into {out}/m<k>/ :
  - patch.diff   : `git diff` of the change against the worktree HEAD (apply-able with `git apply` on a clean checkout). Make m1, save its diff, `git checkout -- .`, then make m2. NEVER use `git stash` (the stash is shared with other worktrees of the same repository); use `git diff > file`, `git checkout -- .` and `git apply file` instead.
  - demo.py      : a small self-contained program run as `cd <checkout> && /venv/bin/python {out}/m<k>/demo.py` that imports eyecite from the current directory (start with `import sys, os; sys.path.insert(0, os.getcwd())`), checks the PROPERTY (as stated, not the implementation detail) on inputs that expose the change, prints what it found, and exits 0 if the property holds and 1 if it is violated. It must exit 0 on the unchanged checkout and 1 with the change applied. It must only assert what the property text states.
  - summary.txt  : what the change pretends to be, what it really breaks, which clause of the property is violated, and exactly what input shape / sequence / configuration is needed for it to manifest.

Before finishing, verify for each change yourself: clean checkout -> demo exits 0; with patch -> full test suite passes and demo exits 1. Leave the worktree clean (`git checkout -- .`; remove any files you created inside it) when you are done. Your final answer should be a short report: for each of m1 and m2 one paragraph (files touched, what is needed to manifest) and the verification results you observed.""")
